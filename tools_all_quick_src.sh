#!/bin/bash
# tools_all_quick_src.sh <source tree> <tag>: run every quick check against another checkout (via VERIF_SRC; /repo untouched)
SRC=$1; TAG=$2; cd "$(dirname "$0")"
for c in ${CHECKS:-C01 C02 C03 C04 C05 C06 C07 C08 C09 C10 C11 C12 C13 C14 C15 C16 C17 C18}; do
  s=$(date +%s)
  VERIF_SRC=$SRC timeout 3000 ./run.sh $c quick > /dev/shm/src_${TAG}_$c.out 2>&1
  rc=$?
  echo "$TAG $c exit=$rc $(( $(date +%s) - s ))s viol=$(grep -a -c '^VIOLATION' /dev/shm/src_${TAG}_$c.out) known=$(grep -a -c '^KNOWN' /dev/shm/src_${TAG}_$c.out) inconclusive=$(grep -a -c inconclusive /dev/shm/src_${TAG}_$c.out) $(grep -a -m1 -E 'HARNESS|BUILD FAILED' /dev/shm/src_${TAG}_$c.out)"
done
