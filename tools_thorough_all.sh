#!/bin/bash
# run every thorough tier in sequence (harvesting unknown classes for review), used during development only
cd "$(dirname "$0")"
for c in ${@:-C01 C02 C03 C04 C05 C06 C07 C08 C09 C10 C11 C12 C13 C14 C15 C16 C17 C18}; do
  s=$(date +%s)
  VERIF_HARVEST=/dev/shm/harvest_thorough.txt timeout 3000 ./run.sh $c thorough > /dev/shm/t_$c.out 2>&1
  echo "$c exit=$? $(( $(date +%s) - s ))s viol=$(grep -a -c '^VIOLATION' /dev/shm/t_$c.out) known=$(grep -a -c '^KNOWN-FINDING' /dev/shm/t_$c.out)"
  cp evidence/$c.json /dev/shm/evidence_thorough_$c.json 2>/dev/null
done
