#!/usr/bin/env python3
import json
checks = {
 "C01": ("model_checking", "E1 history explorer", "breadth-first search over call histories (afero alphabets A/N, archive alphabet B, open-handle alphabet H, histories that start on a foreign tar archive F), state-merged; after EVERY transition the live tree is compared field by field with a reopened instance and with an instance rebuilt from the tape alone", "§6 C01"),
 "C02": ("model_checking", "E1 history explorer", "same exploration; every call is executed in lock-step with a reference hierarchical file system (success/failure agreement, resulting tree, untouched entries unchanged); OpenFile flag lattice and a name universe with SQL wildcards, dots, spaces, non-ASCII, >100-byte names", "§6 C02"),
 "C03": ("exploration", "E5 matrix enumerator", "complete Cartesian product of pipeline configurations x record sizes x caches x content classes; each case written by the real write path and read back four ways", "§6 C03"),
 "C04": ("model_checking", "E1 history explorer (archive level)", "breadth-first search over batched Archive / Update / Delete / Move histories for several record sizes; after every transition every index position is checked against an independent block scanner of the tape, Fetch at the position must return the reference content, Query must report the scanner's positions", "§6 C04"),
 "C05": ("model_checking", "E1 history explorer", "same exploration as C01; after every transition: previous tape is a prefix, rejected calls append nothing, block alignment, archive/tar and an independent scanner iterate the whole tape identically, member data equals content", "§6 C05"),
 "C06": ("fault_enumeration", "E2 crash enumerator", "every prefix length (thorough: byte granular) of the final tapes of a history set, each rebuilt with the real indexer and compared with the clean cut after the last complete record", "§6 C06"),
 "C07": ("model_checking", "E1 history explorer", "for every state of the exploration and every record prefix j: index of the first j records + replay of the whole tape (twice) must converge to the from-scratch rebuild", "§6 C07"),
 "C08": ("fault_enumeration", "E5 + byte enumeration", "every single-byte alteration (3 values per position) of tapes written under signatures, plus the complete list of structured forgeries; every accepted header must be one the writer signed, every content restored (recovery.Fetch) or read through the file API (Open+Read+Close) the one signed under it, or an error", "§6 C08"),
 "C09": ("model_checking", "E1 history explorer", "breadth-first search over histories whose names, contents, owners and times carry markers; after every transition the raw tape is searched for every marker in raw/base64/hex/decimal form and outer headers are parsed; rebuild and fetch with an unrelated key must fail", "§6 C09"),
 "C10": ("fault_enumeration", "E3 fault enumerator", "for every state-merged history and call (including Initialize on an empty drive, again, and of a fresh instance over the same tape with the same / an empty index): every single fault point the fault-free run reaches at every seam, followed by a probe; hangs decided by the cooperative scheduler (no enabled thread), panics recovered and reported", "§6 C10"),
 "C11": ("model_checking", "E4 schedule explorer", "stateless DFS over all interleavings of 2-3 client threads + background goroutines on the real code under a controlled scheduler, iterative preemption bounding; each schedule judged for completion, linearizability against the implementation's own sequential runs, and reproducibility from the tape; separate sampled -race pass", "§6 C11"),
 "C12": ("model_checking", "E1 history explorer", "all subsets (size bound) of a top-level name universe {a, ab, a_, a%, 'a b', a., ä} populated with children as initial states; all recursive removes/renames; tree and rebuilt tree vs reference", "§6 C12"),
 "C13": ("model_checking", "E1 history explorer", "same exploration as C02 plus deep/many-children alphabet; after every transition: live rows = reachable set, parents are directories, Readdir/Readdirnames for n in {-1,0,1,2,children,children+1}, listings agree with lookups; plus every schedule (preemption-bounded, E4) of two-thread parent-vs-child scenarios judged for the well-formedness of the final namespace", "§6 C13"),
 "C14": ("model_checking", "E6 handle explorer", "breadth-first search over handle-call sequences (tiny argument domains incl. negative/at/beyond end), state-merged by (content, cursor, mode), for every flag combination, both write caches; every call compared with a byte-array reference incl. the reported cursor; reopen after close", "§6 C14"),
 "C15": ("model_checking", "E1 variant", "all histories (depth bound) over every mutating and non-mutating method incl. the full OpenFile flag lattice against read-only instances (with and without write backend, with and without index) over populated tapes; tape hash and index rows unchanged, permission errors, reads equal a writable twin", "§6 C15"),
 "C16": ("fault_enumeration", "E2 crash enumerator", "tapes of a history set, intact or cut at every block/write boundary (+-1) and inside the last records, x index {absent, current, stale}; Initialize, then follow-up write, read-back and rebuild", "§6 C16"),
 "C17": ("model_checking", "E5 + E1", "complete product of all tree shapes (depth<=2, fan-out<=2) x {ustar,pax,gnu} x {./, /, top/} x name classes x record sizes written by archive/tar; opened through the documented composition, walked, spellings compared, then follow-up calls explored with the C01/C02 oracles", "§6 C17"),
 "C18": ("exploration", "E5 matrix enumerator", "complete matrix key kind x password class x sub-check (generate, parse, round trips, altered data, cross-pair rejection, every wrong password)", "§6 C18"),
}
notes = {
 "C11": "the data-race clause is covered only by the sampled free-running -race pass (a cooperative scheduler serialises everything); SQLite/database/sql unscheduled; 2-3 threads, listed scenarios",
}
tech = {
 "C01": "explicit-state BFS over the real implementation + differential oracle", "C02": "explicit-state BFS in lock-step with a reference model",
 "C03": "exhaustive product enumeration", "C04": "explicit-state BFS + independent tape scanner", "C05": "explicit-state BFS + tape invariants",
 "C06": "exhaustive crash-point enumeration", "C07": "explicit-state BFS + replay-convergence oracle", "C08": "exhaustive single-byte fault enumeration + forgery list",
 "C09": "explicit-state BFS + marker search", "C10": "exhaustive single-fault enumeration under a deadlock-deciding scheduler",
 "C11": "stateless model checking (controlled scheduler, preemption-bounded DFS)", "C12": "explicit-state BFS from enumerated initial states",
 "C13": "explicit-state BFS + namespace invariants", "C14": "explicit-state BFS in lock-step with a byte-array reference",
 "C15": "explicit-state BFS + immutability oracle", "C16": "exhaustive crash-point x index-variant enumeration", "C17": "exhaustive product enumeration + BFS follow-ups",
 "C18": "exhaustive matrix enumeration",
}
m = {
 "version": 1,
 "setup_cmd": "./run.sh build",
 "hooks": {
  "guard": "overlay (no in-tree build tag): instrumentation is generated from /repo's current working tree by mc/cmd/mkoverlay at check time; nothing under /repo is edited for hooks",
  "enable": "go build -overlay /verif/.build/overlay.json (done by ./run.sh on every invocation): import sync -> vsync shim, go -> vsync.Go, io.Pipe (and the io.PipeReader/io.PipeWriter types) -> vsync.Pipe, time.Now -> vsync.Now in /repo/pkg/**",
  "baseline_off_cmd": "cd /repo && go test -mod=mod -json -vet=off -count=1 -timeout 25m ./...",
  "source_commits": [],
  "add_only": True
 },
 "engines": [
  {"name": "E1 history explorer", "path": "mc/engines/e1ctl.go, e1work.go, e1more.go", "serves_properties": ["C01","C02","C04","C05","C07","C09","C12","C13","C15","C17"], "kind_free_text": "explicit-state breadth-first search over call histories of the real implementation, states merged by canonical key, reference model in lock-step"},
  {"name": "E2 crash enumerator", "path": "mc/engines/e2ctl.go, e2work.go", "serves_properties": ["C06","C16"], "kind_free_text": "every crash point (tape prefix) of a set of real tapes"},
  {"name": "E3 fault enumerator", "path": "mc/engines/e3ctl.go, e3work.go", "serves_properties": ["C10"], "kind_free_text": "every single fault point per seam and call"},
  {"name": "E4 schedule explorer", "path": "mc/engines/c11work.go, mc/shim/vsync/vsync.go", "serves_properties": ["C11","C13"], "kind_free_text": "controlled cooperative scheduler + preemption-bounded stateless DFS"},
  {"name": "E5 matrix enumerators", "path": "mc/engines/e5work.go, c08work.go, c17work.go, c18work.go", "serves_properties": ["C03","C08","C17","C18"], "kind_free_text": "complete Cartesian products"},
  {"name": "E6 handle explorer", "path": "mc/engines/e6work.go", "serves_properties": ["C14"], "kind_free_text": "BFS over handle-call sequences against a byte-array reference"},
 ],
 "checks": [],
 "not_applicable": [],
 "notes": "All checks: ./run.sh <id> <tier> regenerates the overlay from /repo's working tree, rebuilds (about 1 s warm, 30 s cold) and runs. Known genuine defects that are recorded rather than repaired are in known_findings.txt (class keys); repaired ones are 'fix:' commits in /repo listed there as 'fixed:'."
}
for cid in sorted(checks):
    cat, eng, text, ref = checks[cid]
    m["checks"].append({
        "property_id": cid,
        "quick_cmd": f"./run.sh {cid} quick",
        "thorough_cmd": f"./run.sh {cid} thorough",
        "evidence_file": f"evidence/{cid}.json",
        "replay_cmd_template": "./run.sh replay {path}",
        "engine": eng,
        "level_claimed": {"category": cat, "text": text, "design_ref": "DESIGN.md " + ref},
        "level_note": notes.get(cid, "tape = regular file (no tape-drive ioctls); SQLite trusted; alphabets and bounds as reported in the evidence file; the scheduler shim (vsync) is assumed to preserve sync.Mutex / io.Pipe semantics (self-tested)"),
        "technique": tech[cid],
    })
json.dump(m, open('/verif/MANIFEST.json', 'w'), indent=1)
print("written", len(m["checks"]), "checks")
