#!/bin/bash
# tools_seed_confirm.sh <id>...: confirm a seeded change myself in its scratch worktree /tmp/seed-<id>:
#   builds; reference set passes WITH the change; demonstration FAILS with and PASSES without it.
export GOFLAGS=-mod=mod GOPROXY=off GOSUMDB=off GOTOOLCHAIN=local
for id in "$@"; do
  W=/tmp/seed-$id; S=/verif/seeded/$id
  export TMPDIR=/tmp/seed-$id-demo/tmp; mkdir -p $TMPDIR
  git -C $W checkout -q -- . || { echo "$id: no worktree"; continue; }
  git -C $W apply $S/patch.diff || { echo "$id: patch does not apply"; continue; }
  (cd $W && go build ./...) || { echo "$id: BUILD FAILS"; continue; }
  ref=$( (cd $W/pkg/fs && go test -mod=mod -vet=off -count=1 -timeout 20m -run '^(TestFile_Name|TestFileInfo_.*|TestNewFileInfo.*)$' . 2>&1 | tail -1) )
  cmd=$(python3 -c "import json,html;print(html.unescape(json.load(open('$S/meta.json'))['demo_cmd']))")
  with=$(bash -c "$cmd" > $TMPDIR/with.log 2>&1; echo $?)
  git -C $W apply -R $S/patch.diff
  without=$(bash -c "$cmd" > $TMPDIR/without.log 2>&1; echo $?)
  git -C $W apply $S/patch.diff
  echo "$id: reference-set='$ref' demo-with-change-exit=$with demo-without-change-exit=$without"
  rm -rf $TMPDIR/stfs-test-* 2>/dev/null
done
