#!/bin/bash
# tools_seed_confirm.sh <seed dir name>...: confirm a seeded change in a fresh scratch worktree:
#   it builds; the pinned reference set passes WITH the change; the demonstration FAILS with and PASSES without it.
# The agents' demo commands refer to /tmp/seed-<id> (round 1), /tmp/seed2-<id> (round 2, directories r2-<id>) or /tmp/seed3-<id> (round 3, r3-<id>).
export GOFLAGS=-mod=mod GOPROXY=off GOSUMDB=off GOTOOLCHAIN=local
for d in "$@"; do
  S=/verif/seeded/$d
  case $d in r6-*) id=${d#r6-}; W=/tmp/seed6-$id; D=/tmp/seed6-$id-demo ;; r5-*) id=${d#r5-}; W=/tmp/seed5-$id; D=/tmp/seed5-$id-demo ;; r4-*) id=${d#r4-}; W=/tmp/seed4-$id; D=/tmp/seed4-$id-demo ;; r3-*) id=${d#r3-}; W=/tmp/seed3-$id; D=/tmp/seed3-$id-demo ;; r2-*) id=${d#r2-}; W=/tmp/seed2-$id; D=/tmp/seed2-$id-demo ;; *) id=$d; W=/tmp/seed-$id; D=/tmp/seed-$id-demo ;; esac
  git -C /repo worktree remove --force $W >/dev/null 2>&1; rm -rf $W $D
  git -C /repo worktree add --detach $W HEAD >/dev/null 2>&1 || { echo "$d: cannot create worktree"; continue; }
  mkdir -p $D/tmp; cp $S/*_test.go $S/patch.diff $D/
  export TMPDIR=$D/tmp
  git -C $W apply $S/patch.diff || { echo "$d: patch does not apply"; continue; }
  (cd $W && go build ./...) || { echo "$d: BUILD FAILS"; continue; }
  ref=$( (cd $W/pkg/fs && go test -mod=mod -vet=off -count=1 -timeout 20m -run '^(TestFile_Name|TestFileInfo_.*|TestNewFileInfo.*)$' . 2>&1 | tail -1) )
  cmd=$(python3 -c "import json,html;print(html.unescape(json.load(open('$S/meta.json'))['demo_cmd']))")
  bash -c "$cmd" > $D/with.log 2>&1
  with=$(grep -a -c -E "^(--- FAIL|FAIL)" $D/with.log)
  git -C $W apply -R $S/patch.diff
  bash -c "$cmd" > $D/without.log 2>&1
  without=$(grep -a -c -E "^(--- FAIL|FAIL)" $D/without.log); okw=$(grep -a -c -E "^ok" $D/without.log)
  echo "$d: reference-set='$ref' demo-with-change: FAIL-lines=$with; demo-without-change: FAIL-lines=$without ok-lines=$okw"
  git -C /repo worktree remove --force $W >/dev/null 2>&1; rm -rf $W $D
done
