#!/bin/bash
# run.sh <Cxx> <quick|thorough>  |  run.sh replay <file>  |  run.sh build
# Regenerates the instrumentation overlay from /repo's current working tree, rebuilds, runs.
set -u
export GOFLAGS=-mod=mod GOPROXY=off GOSUMDB=off GOTOOLCHAIN=local CGO_ENABLED=0
export VERIF_DIR="$(cd "$(dirname "$0")" && pwd)"
REPO=${VERIF_REPO:-/repo}
B="$VERIF_DIR/.build"
# VERIF_SRC=<other checkout>: read the sources from there (its differences to $REPO go into the overlay); /repo is not touched
SRC=${VERIF_SRC:-}
if [ -n "$SRC" ]; then B="$VERIF_DIR/.build/src-$(echo "$SRC" | tr -c 'A-Za-z0-9' '_')"; fi
mkdir -p "$B"
[ -n "$SRC" ] && [ ! -f "$B/keys.json" ] && [ -f "$VERIF_DIR/.build/keys.json" ] && cp "$VERIF_DIR/.build/keys.json" "$B/keys.json"
export VERIF_BUILD_DIR="$B"
[ -n "$SRC" ] && export VERIF_OUT_DIR="$B"   # evidence and replay artefacts of such trial runs stay out of /verif/evidence
build() {
  (
    flock 9
    cd "$VERIF_DIR/mc" || exit 2
    cp "$REPO/go.sum" go.sum 2>/dev/null
    if [ ! -x "$B/mkoverlay" ] || [ cmd/mkoverlay/main.go -nt "$B/mkoverlay" ]; then
      go build -o "$B/mkoverlay" ./cmd/mkoverlay || exit 2
    fi
    "$B/mkoverlay" "$REPO" "$VERIF_DIR/mc/shim/vsync/vsync.go" "$B" "$SRC" 2>"$B/mkoverlay.log" || { cat "$B/mkoverlay.log" >&2; exit 2; }
    go build -overlay "$B/overlay.json" -o "$B/stfsmc" ./cmd/stfsmc || exit 2
    if [ "${WANT_SELFTEST:-0}" = 1 ]; then
      go test ./shim/vsync/ >"$B/selftest.log" 2>&1 || { cat "$B/selftest.log" >&2; echo "scheduler self-test failed" >&2; exit 2; }
    fi
    if [ "${WANT_RACE:-0}" = 1 ]; then
      CGO_ENABLED=1 go build -race -overlay "$B/overlay.json" -o "$B/stfsmc-race" ./cmd/stfsmc || { echo "race build failed (race pass will be skipped)" >&2; rm -f "$B/stfsmc-race"; }
    fi
    [ -f "$B/keys.json" ] || "$B/stfsmc" keys || exit 2
  ) 9>"$B/.lock"
}
case "${1:-}" in build|C11) WANT_RACE=1 ;; esac
case "${1:-}" in build) WANT_SELFTEST=1 ;; esac
case "${1:-}" in
  build) build; exit $? ;;
  replay) build || { echo "BUILD FAILED (not a verdict)" >&2; exit 2; }; exec "$B/stfsmc" replay "$2" ;;
  "") echo "usage: run.sh <Cxx> <quick|thorough>" >&2; exit 2 ;;
  *) build || { echo "BUILD FAILED (not a verdict)" >&2; exit 2; }; exec "$B/stfsmc" check "$1" --tier "${2:-quick}" ;;
esac
