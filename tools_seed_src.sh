#!/bin/bash
# tools_seed_src.sh <id>: fresh scratch worktree of /repo HEAD with seeded/<id>/patch.diff applied; prints its path
set -e
D=/tmp/sv-$1
git -C /repo worktree remove --force $D >/dev/null 2>&1 || true
rm -rf $D
git -C /repo worktree add --detach $D HEAD >/dev/null 2>&1
git -C $D apply /verif/seeded/$1/patch.diff
echo $D
