#!/bin/bash
# tools_seed_collect.sh <round> <Cxx>...: copy a round-<n> sub-agent's deliverables (/tmp/seed<n>-<Cxx>-demo) into
# seeded/r<n>-<Cxx>/ and try its own check on a scratch checkout (VERIF_SRC), never touching /repo.
# Prints: r<n>-<Cxx> <tier> exit=<e> viol=<v> known=<k> + classes.   TIER=thorough for the thorough tier; CHECK=<Cyy> for another property's check.
export GOFLAGS=-mod=mod GOPROXY=off GOSUMDB=off GOTOOLCHAIN=local
R=$1; shift
cd /verif
for id in "$@"; do
  S=/tmp/seed$R-$id-demo; D=seeded/r$R-$id
  mkdir -p $D
  for f in patch.diff meta.json; do [ -f $S/$f ] && cp $S/$f $D/; done
  cp $S/*_test.go $D/ 2>/dev/null   # the demonstration and any helper file it needs
  [ -f $D/patch.diff ] || { echo "r$R-$id: no patch"; continue; }
  src=$(./tools_seed_src.sh r$R-$id) || { echo "r$R-$id: patch does not apply"; continue; }
  chk=${CHECK:-$id}
  out=/dev/shm/seed${R}_${id}_$chk.out
  VERIF_SRC=$src timeout 3000 ./run.sh $chk ${TIER:-quick} > $out 2>&1
  echo "r$R-$id $chk ${TIER:-quick} exit=$? viol=$(grep -a -c '^VIOLATION' $out) known=$(grep -a -c '^KNOWN-FINDING' $out)"
  grep -a -E "^  class:" $out | head -5
  git -C /repo worktree remove --force $src >/dev/null 2>&1; rm -rf $src
done
