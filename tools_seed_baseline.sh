#!/bin/bash
# tools_seed_baseline.sh <worktree>: run the pinned reference set (TestFile_Name, TestFileInfo_*, TestNewFileInfo*) in a worktree
export GOFLAGS=-mod=mod GOPROXY=off GOSUMDB=off GOTOOLCHAIN=local
cd "$1/pkg/fs" && go test -mod=mod -vet=off -count=1 -timeout 20m -run '^(TestFile_Name|TestFileInfo_.*|TestNewFileInfo.*)$' . 2>&1 | tail -3
rm -rf /tmp/stfs-test-* 2>/dev/null
