#!/bin/bash
# tools_seed_eval.sh <seed dir name> <check id> [tier]: apply seeded/<dir>/patch.diff to /repo, run the check, undo.
# prints: RESULT <dir> <check> <tier> exit=<n> violations=<n> classes...
set -u
D=/verif/seeded/$1; C=$2; T=${3:-quick}
cd /repo || exit 2
if [ -n "$(git status --porcelain --untracked-files=no)" ]; then echo "/repo is dirty" >&2; exit 2; fi
git apply "$D/patch.diff" || { echo "patch does not apply" >&2; exit 2; }
trap 'git -C /repo checkout -- . ' EXIT
cd /verif
out=/dev/shm/seed_$1_${C}_$T.out
timeout 3000 ./run.sh $C $T > $out 2>&1
rc=$?
echo "RESULT $1 $C $T exit=$rc violations=$(grep -a -c '^VIOLATION' $out)"
grep -a -E "^  class:" $out | head -6
git -C /verif checkout -- evidence 2>/dev/null
