package huntb

import (
	"archive/tar"
	"bytes"
	"io"
	"os"
	"path/filepath"
	"sort"
	"testing"

	"github.com/pojntfx/stfs/pkg/cache"
	"github.com/pojntfx/stfs/pkg/config"
	sfs "github.com/pojntfx/stfs/pkg/fs"
	logging "github.com/pojntfx/stfs/internal/logging"
	"github.com/pojntfx/stfs/pkg/mtio"
	"github.com/pojntfx/stfs/pkg/operations"
	"github.com/pojntfx/stfs/pkg/persisters"
	"github.com/pojntfx/stfs/pkg/tape"
	"github.com/spf13/afero"
)

type env struct {
	dir   string
	drive string
	db    string
	rs    int
	stfs  *sfs.STFS
	fs    afero.Fs
	root  string
}

// open (re)creates the file system instance over the tar file; if freshIndex, the db is deleted first
func (e *env) open(t testing.TB, freshIndex bool) {
	if freshIndex {
		os.Remove(e.db)
	}
	mt := mtio.MagneticTapeIO{}
	tm := tape.NewTapeManager(e.drive, mt, e.rs, false)
	mp := persisters.NewMetadataPersister(e.db)
	if err := mp.Open(); err != nil {
		t.Fatal(err)
	}
	l := logging.NewJSONLogger(0)
	mc := config.MetadataConfig{Metadata: mp}
	pc := config.PipeConfig{RecordSize: e.rs}
	bc := config.BackendConfig{GetWriter: tm.GetWriter, CloseWriter: tm.Close, GetReader: tm.GetReader, CloseReader: tm.Close, MagneticTapeIO: mt}
	ro := operations.NewOperations(bc, mc, pc, config.CryptoConfig{}, func(*config.HeaderEvent) {})
	wo := operations.NewOperations(bc, mc, pc, config.CryptoConfig{}, func(*config.HeaderEvent) {})
	s := sfs.NewSTFS(ro, wo, mc, "", func() (cache.WriteCache, func() error, error) {
		return cache.NewCacheWrite(filepath.Join(e.dir, "wc"), config.WriteCacheTypeMemory)
	}, false, false, func(*config.Header) {}, l)
	root, err := s.Initialize("/", os.ModePerm)
	if err != nil {
		t.Fatalf("Initialize: %v", err)
	}
	e.root = root
	e.stfs = s
	f, err := cache.NewCacheFilesystem(s, root, config.NoneKey, 0, "")
	if err != nil {
		t.Fatal(err)
	}
	e.fs = f
}

func newEnv(t testing.TB, rs int, tarBytes []byte) *env {
	dir := t.TempDir()
	e := &env{dir: dir, drive: filepath.Join(dir, "drive.tar"), db: filepath.Join(dir, "index.sqlite"), rs: rs}
	if tarBytes != nil {
		if err := os.WriteFile(e.drive, tarBytes, 0o644); err != nil {
			t.Fatal(err)
		}
	}
	e.open(t, true)
	return e
}

type member struct {
	name string
	dir  bool
	data []byte
}

func mkTar(t testing.TB, format tar.Format, ms []member) []byte {
	var buf bytes.Buffer
	tw := tar.NewWriter(&buf)
	for _, m := range ms {
		h := &tar.Header{Name: m.name, Mode: 0o644, Format: format}
		if m.dir {
			h.Typeflag = tar.TypeDir
			h.Mode = 0o755
		} else {
			h.Typeflag = tar.TypeReg
			h.Size = int64(len(m.data))
		}
		if err := tw.WriteHeader(h); err != nil {
			t.Fatal(err)
		}
		if !m.dir {
			if _, err := tw.Write(m.data); err != nil {
				t.Fatal(err)
			}
		}
	}
	if err := tw.Close(); err != nil {
		t.Fatal(err)
	}
	return buf.Bytes()
}

func names(t testing.TB, f afero.Fs, dir string) []string {
	d, err := f.Open(dir)
	if err != nil {
		t.Fatalf("open %q: %v", dir, err)
	}
	defer d.Close()
	n, err := d.Readdirnames(-1)
	if err != nil {
		t.Fatalf("readdirnames %q: %v", dir, err)
	}
	sort.Strings(n)
	return n
}

func readAll(f afero.Fs, name string) ([]byte, error) {
	h, err := f.Open(name)
	if err != nil {
		return nil, err
	}
	defer h.Close()
	return io.ReadAll(h)
}

func writeFile(f afero.Fs, name string, data []byte) error {
	h, err := f.Create(name)
	if err != nil {
		return err
	}
	if _, err := h.Write(data); err != nil {
		h.Close()
		return err
	}
	return h.Close()
}

// walk returns path->("d"|size) for everything reachable from root
func walk(t testing.TB, f afero.Fs, dir string, out map[string]string, depth int) {
	if depth > 20 {
		t.Fatalf("too deep at %q", dir)
	}
	d, err := f.Open(dir)
	if err != nil {
		out[dir+"!open"] = err.Error()
		return
	}
	infos, err := d.Readdir(-1)
	d.Close()
	if err != nil {
		out[dir+"!readdir"] = err.Error()
		return
	}
	for _, i := range infos {
		p := filepath.Join(dir, i.Name())
		if _, dup := out[p]; dup {
			out[p] += "DUP"
			continue
		}
		if i.IsDir() {
			out[p] = "d"
			walk(t, f, p, out, depth+1)
		} else {
			out[p] = "f"
		}
	}
}

func mkTarRaw(t testing.TB, hs []*tar.Header, datas [][]byte) []byte {
	var buf bytes.Buffer
	tw := tar.NewWriter(&buf)
	for i, h := range hs {
		if err := tw.WriteHeader(h); err != nil {
			t.Fatal(err)
		}
		if datas[i] != nil {
			tw.Write(datas[i])
		}
	}
	tw.Close()
	return buf.Bytes()
}
