package huntb

import (
	"archive/tar"
	"testing"
)

// Control: the same harness sees the expected tree for an ordinary './' archive (this test passes).
func TestControl_OrdinaryArchive(t *testing.T) {
	ms := []member{{name: "./", dir: true}, {name: "./a.txt", data: []byte("A")}, {name: "./d/", dir: true}, {name: "./d/b.txt", data: []byte("B")}}
	e := newEnv(t, 20, mkTar(t, tar.FormatPAX, ms))
	if got := tree(t, e); got != wantTree {
		t.Fatalf("tree %v want %v", got, wantTree)
	}
}

