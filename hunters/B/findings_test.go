package huntb

import (
	"archive/tar"
	"fmt"
	"sort"
	"testing"
	"time"

	"github.com/pojntfx/stfs/pkg/cache"
	"github.com/pojntfx/stfs/pkg/config"
)

func tree(t *testing.T, e *env) string {
	out := map[string]string{}
	walk(t, e.fs, "/", out, 0)
	paths := []string{}
	for k := range out {
		paths = append(paths, k)
	}
	sort.Strings(paths)
	keys := []string{}
	for _, k := range paths {
		keys = append(keys, k+":"+out[k])
	}
	return fmt.Sprint(keys)
}

const wantTree = "[/a.txt:f /d:d /d/b.txt:f]"

func mkTarHdrs(t *testing.T, hs []*tar.Header, datas [][]byte) []byte {
	return mkTarRaw(t, hs, datas)
}

// [C17] A PAX archive that starts with a global extended header (what `git archive` and `pax -w -o globexthdr` write;
// archive/tar writes it with Typeflag TypeXGlobalHeader) is opened with the pseudo entry "pax_global_header" as the root.
func TestF1_PaxGlobalHeaderBecomesRoot(t *testing.T) {
	for _, pre := range []string{"./", "/", "top/"} {
		hs := []*tar.Header{
			{Typeflag: tar.TypeXGlobalHeader, Name: "pax_global_header", PAXRecords: map[string]string{"comment": "0123456789abcdef0123456789abcdef01234567"}, Format: tar.FormatPAX},
			{Typeflag: tar.TypeDir, Name: pre, Mode: 0o755, Format: tar.FormatPAX},
			{Typeflag: tar.TypeReg, Name: pre + "a.txt", Mode: 0o644, Size: 1, Format: tar.FormatPAX},
			{Typeflag: tar.TypeDir, Name: pre + "d/", Mode: 0o755, Format: tar.FormatPAX},
			{Typeflag: tar.TypeReg, Name: pre + "d/b.txt", Mode: 0o644, Size: 1, Format: tar.FormatPAX},
		}
		e := newEnv(t, 20, mkTarHdrs(t, hs, [][]byte{nil, nil, []byte("A"), nil, []byte("B")}))
		if got := tree(t, e); got != wantTree {
			t.Errorf("root style %q: PAX archive with a global extended header: Initialize chose root %q, tree from '/' is %v, want %v", pre, e.root, got, wantTree)
		}
		if b, err := readAll(e.fs, "/d/b.txt"); err != nil || string(b) != "B" {
			t.Errorf("root style %q: read /d/b.txt = %q, %v; want \"B\"", pre, b, err)
		}
	}
}

// [C17] Archive written in post-order (`find . -depth | pax -w` / `cpio`, the classic way to preserve directory mtimes):
// the entry of the top-level directory "." exists but is the last one. The first depth-0 entry is taken as the root.
func TestF2_TopLevelDirectoryEntryNotFirst(t *testing.T) {
	for _, format := range []tar.Format{tar.FormatUSTAR, tar.FormatPAX, tar.FormatGNU} {
		ms := []member{{name: "./d/b.txt", data: []byte("B")}, {name: "./d", dir: true}, {name: "./a.txt", data: []byte("A")}, {name: ".", dir: true}}
		e := newEnv(t, 20, mkTar(t, format, ms))
		if got := tree(t, e); got != wantTree {
			t.Errorf("%v: post-order archive: Initialize chose root %q, tree from '/' is %v, want %v", format, e.root, got, wantTree)
		}
		if b, err := readAll(e.fs, "/a.txt"); err != nil || string(b) != "A" {
			t.Errorf("%v: read /a.txt = %q, %v; want \"A\"", format, b, err)
		}
	}
}

// [C17] Archive with absolute member names under a named top directory (`tar -P -cf x.tar /top`): listing and reading work, but
// the directories of the archive (stored with their trailing slash) can neither be removed nor renamed; RemoveAll reports success and removes nothing.
func TestF3_AbsoluteTopDirectoriesCannotBeRemovedOrRenamed(t *testing.T) {
	ms := []member{{name: "/top/", dir: true}, {name: "/top/a.txt", data: []byte("A")}, {name: "/top/d/", dir: true}, {name: "/top/d/b.txt", data: []byte("B")}, {name: "/top/empty/", dir: true}}
	e := newEnv(t, 20, mkTar(t, tar.FormatPAX, ms))
	if got, want := tree(t, e), "[/a.txt:f /d:d /d/b.txt:f /empty:d]"; got != want {
		t.Fatalf("precondition: tree %v, want %v", got, want)
	}
	if err := e.fs.Remove("/empty"); err != nil {
		t.Errorf("Remove(/empty) of an empty directory from the archive: %v", err)
	}
	if err := e.fs.Rename("/d", "/d2"); err != nil {
		t.Errorf("Rename(/d, /d2) of a directory from the archive: %v", err)
	}
	if err := e.fs.RemoveAll("/d"); err == nil {
		if _, serr := e.fs.Stat("/d"); serr == nil {
			if _, serr2 := e.fs.Stat("/d2"); serr2 != nil {
				t.Errorf("RemoveAll(/d) returned nil but /d is still there: tree %v", tree(t, e))
			}
		}
	}
}

// [C13] RemoveAll("/") (and Remove("/") on an empty file system) deletes the root directory itself. Native file system: nothing can be
// stat-ed, listed or created any more and a new instance can't Initialize. './'-style archive: only the root record is deleted, its
// children stay live but unreachable, and the first child is then taken as the "root".
func TestF4_RemoveAllOfRootDestroysTheRoot(t *testing.T) {
	e := newEnv(t, 20, nil)
	if err := writeFile(e.fs, "/a.txt", []byte("A")); err != nil {
		t.Fatal(err)
	}
	err := e.fs.RemoveAll("/")
	if fi, serr := e.fs.Stat("/"); serr != nil || !fi.IsDir() {
		t.Errorf("native: after RemoveAll(\"/\") = %v the root is gone: Stat(\"/\") = %v", err, serr)
	}
	if merr := e.fs.Mkdir("/x", 0o755); merr != nil {
		t.Errorf("native: after RemoveAll(\"/\") = %v: Mkdir(/x) = %v", err, merr)
	}

	e = newEnv(t, 20, nil)
	err = e.fs.Remove("/")
	if _, serr := e.fs.Stat("/"); serr != nil {
		t.Errorf("native, empty: after Remove(\"/\") = %v the root is gone: Stat(\"/\") = %v", err, serr)
	}

	ms := []member{{name: "./", dir: true}, {name: "./a.txt", data: []byte("A")}, {name: "./d/", dir: true}, {name: "./d/b.txt", data: []byte("B")}}
	e = newEnv(t, 20, mkTar(t, tar.FormatPAX, ms))
	err = e.fs.RemoveAll("/")
	fi, serr := e.fs.Stat("/")
	if serr != nil || !fi.IsDir() {
		t.Errorf("'./' archive: after RemoveAll(\"/\") = %v: Stat(\"/\") = %v, %v; want a directory", err, fi, serr)
	}
	e.open(t, true)
	if got := tree(t, e); got != "[]" && got != wantTree {
		t.Errorf("'./' archive: after RemoveAll(\"/\") = %v and an index rebuild: root %q, tree %v; want an empty root (or the untouched tree)", err, e.root, got)
	}
}

// [C17] With the documented in-memory file system cache, 'd/b.txt' and '/d/b.txt' are different cache keys: after a write through one spelling
// a read through the other one keeps returning the old content.
func TestF5_MemoryCacheSpellingsDiverge(t *testing.T) {
	ms := []member{{name: "./", dir: true}, {name: "./a.txt", data: []byte("A")}, {name: "./d/", dir: true}, {name: "./d/b.txt", data: []byte("B")}}
	e := newEnv(t, 20, mkTar(t, tar.FormatPAX, ms))
	cfs, err := cache.NewCacheFilesystem(e.stfs, e.root, config.FileSystemCacheTypeMemory, time.Hour, "")
	if err != nil {
		t.Fatal(err)
	}
	if b, err := readAll(cfs, "d/b.txt"); err != nil || string(b) != "B" {
		t.Fatalf("read d/b.txt = %q, %v", b, err)
	}
	if err := writeFile(cfs, "/d/b.txt", []byte("CHANGED")); err != nil {
		t.Fatal(err)
	}
	b1, err1 := readAll(cfs, "/d/b.txt")
	b2, err2 := readAll(cfs, "d/b.txt")
	if err1 != nil || err2 != nil || string(b1) != string(b2) {
		t.Errorf("after writing \"CHANGED\" to /d/b.txt: /d/b.txt reads %q (%v) but d/b.txt reads %q (%v)", b1, err1, b2, err2)
	}
}

// [C13/C17] Archive in which an intermediate directory has no entry of its own (only the top-level directory has one): the member is live
// (it can be stat-ed and read) but no listing reaches it.
func TestF6_MemberWithoutDirectoryEntryIsUnreachable(t *testing.T) {
	ms := []member{{name: "./", dir: true}, {name: "./a.txt", data: []byte("A")}, {name: "./d/b.txt", data: []byte("B")}}
	e := newEnv(t, 20, mkTar(t, tar.FormatPAX, ms))
	b, err := readAll(e.fs, "/d/b.txt")
	_, derr := e.fs.Stat("/d")
	got := tree(t, e)
	if err == nil && (derr != nil || got != wantTree) {
		t.Errorf("/d/b.txt is live (reads %q) but Stat(/d) = %v and the tree from '/' is %v", b, derr, got)
	}
}
