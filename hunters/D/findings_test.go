package huntd

import (
	"context"
	"errors"
	"io"
	"testing"
	"time"
)

func readAll(t *testing.T, i *inst, name string) string {
	t.Helper()
	f, err := i.fs.Open(name)
	if err != nil {
		t.Fatalf("Open %s: %v", name, err)
	}
	defer f.Close()
	b, err := io.ReadAll(f)
	if err != nil {
		t.Fatalf("read %s: %v", name, err)
	}
	return string(b)
}

// D1: Operations.Update checks "is the member in the index / same kind" inside its loop. When a later member of a batch is
// refused, the records of the earlier members are already on the tape, but Update returns without indexing them.
func TestD1_UpdateBatchRefusedMemberLeavesUnindexedRecord(t *testing.T) {
	i := newInst(t, 20)
	writeFile(t, i, "/a", "old content")

	_, err := i.ops.Update(memSrc([]member{
		{path: "/a", content: str("NEW CONTENT")},
		{path: "/missing", content: str("x")}, // not in the index: refused
	}), "fastest", true, true)
	if err == nil {
		t.Fatal("expected the batch to be refused")
	}

	live, reb := readAll(t, i, "/a"), readAll(t, i.rebuilt(t), "/a")
	if live != reb {
		t.Errorf("[C01] after the failing Update batch (%v) the live index shows /a = %q, an index rebuilt from the tape shows /a = %q", err, live, reb)
	}

	// [C04] the next operation starts indexing one record too early: the new entry gets the position of the orphaned record
	writeFile(t, i, "/c", "")
	if got := readAll(t, i, "/c"); got != "" {
		t.Errorf("[C04] /c was created empty, but its index position designates another record: reading /c returns %q", got)
	}
	checkEquiv(t, i, "after Create(/c) following the failing Update batch")
}

// D2: the same for Operations.Archive when getSrc (or GetFile) fails for a later member, e.g. a file that vanished during the walk
func TestD2_ArchiveBatchSourceErrorLeavesUnindexedRecord(t *testing.T) {
	i := newInst(t, 20)

	_, err := i.ops.Archive(memSrc([]member{
		{path: "/a", content: str("aaa")},
		{err: errors.New("file vanished")},
	}), "fastest", false, false)
	if err == nil {
		t.Fatal("expected an error")
	}

	if _, err := i.fs.Stat("/a"); err == nil {
		t.Log("live index knows /a")
	} else if _, err2 := i.rebuilt(t).fs.Stat("/a"); err2 == nil {
		t.Errorf("[C01] after the failing Archive batch the live index does not know /a (%v), an index rebuilt from the tape does", err)
	}

	writeFile(t, i, "/c", "")
	if got := readAll(t, i, "/c"); got != "" {
		t.Errorf("[C04] /c was created empty, but its index position designates the orphaned record of /a: reading /c returns %q", got)
	}
	checkEquiv(t, i, "after Create(/c) following the failing Archive batch")
}

// D3: Archive(overwrite=false) into an empty index (first archive onto a new tape without the overwrite flag, the CLI default)
// starts at (0,0) and skips "the last record that is already indexed" - which does not exist. The first record is never
// indexed and every following record is indexed with the header of its predecessor.
func TestD3_FirstArchiveWithoutOverwriteShiftsHeaders(t *testing.T) {
	dir := t.TempDir()
	i := open(t, dir+"/tape.tar", dir+"/index.sqlite", 20, false)

	if _, err := i.ops.Archive(memSrc([]member{
		{path: "/"},
		{path: "/a", content: str("aaa")},
		{path: "/b", content: str("bbbbbb")},
	}), "fastest", false, false); err != nil {
		t.Fatal(err)
	}

	hdrs, err := i.meta.GetHeaders(context.Background())
	if err != nil {
		t.Fatal(err)
	}
	if len(hdrs) != 3 {
		t.Errorf("[C01] archived 3 members (/, /a, /b), the live index has %d entries:\n%s", len(hdrs), i.dump(t))
	}
	if got := readAll(t, i, "/a"); got != "aaa" {
		t.Errorf("[C04] the position of /a designates the record of /b: reading /a returns %q, want %q", got, "aaa")
	}
	checkEquiv(t, i, "after the first Archive without overwrite")
}

// D4: a zero mtime is written to the tape as 1970-01-01 (archive/tar), but the live index stores the in-memory header (year 1)
func TestD4_ChtimesZeroTimeDiffersAfterRebuild(t *testing.T) {
	i := newInst(t, 20)
	writeFile(t, i, "/a", "x")
	if err := i.fs.Chtimes("/a", time.Time{}, time.Time{}); err != nil {
		t.Fatal(err)
	}

	li, err := i.fs.Stat("/a")
	if err != nil {
		t.Fatal(err)
	}
	ri, err := i.rebuilt(t).fs.Stat("/a")
	if err != nil {
		t.Fatal(err)
	}
	if !li.ModTime().Equal(ri.ModTime()) {
		t.Errorf("[C01] after Chtimes(/a, zero, zero) the live index shows mtime %v, an index rebuilt from the tape shows %v", li.ModTime().UTC(), ri.ModTime().UTC())
	}
}
