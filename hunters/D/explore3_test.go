package huntd

import (
	"os"
	"testing"
)

func TestExploreHandles(t *testing.T) {
	i := newInst(t, 2)
	saved := []string{}
	step := func(what string, err error) {
		t.Helper()
		t.Log(what, "->", err)
		if !fullCheck(t, i, what, &saved) {
			t.FailNow()
		}
	}
	writeFile(t, i, "/a", "0123456789")
	f, err := i.fs.OpenFile("/a", os.O_RDWR, 0)
	step("open", err)
	_, err = f.Write([]byte("AB"))
	step("write", err)
	step("sync", f.Sync())
	step("rename under handle", i.fs.Rename("/a", "/b"))
	_, err = f.Write([]byte("CD"))
	step("write2", err)
	step("close", f.Close())
	writeFile(t, i, "/a", "fresh")
	g, err := i.fs.OpenFile("/a", os.O_WRONLY|os.O_APPEND, 0)
	step("open g", err)
	h, err := i.fs.OpenFile("/a", os.O_WRONLY, 0)
	step("open h", err)
	_, err = g.Write([]byte("+g"))
	step("g write", err)
	_, err = h.Write([]byte("H"))
	step("h write", err)
	step("h truncate", h.Truncate(600))
	step("g close", g.Close())
	step("h close", h.Close())
	step("remove", i.fs.Remove("/a"))
	step("mkdir", i.fs.Mkdir("/a", 0755))
	k, err := i.fs.OpenFile("/b", os.O_WRONLY|os.O_TRUNC, 0)
	step("open trunc", err)
	step("close trunc", k.Close())
	step("rename file onto file", func() error { writeFile(t, i, "/c", "ccc"); return i.fs.Rename("/c", "/b") }())
	step("rename dir onto dir", func() error { i.fs.Mkdir("/z", 0700); writeFile(t, i, "/z/q", "q"); return i.fs.Rename("/z", "/a") }())
}
