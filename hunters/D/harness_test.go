package huntd

import (
	"archive/tar"
	"context"
	"fmt"
	"io"
	"os"
	"path/filepath"
	"sort"
	"strings"
	"testing"
	"time"

	"github.com/pojntfx/stfs/examples"
	"github.com/pojntfx/stfs/pkg/cache"
	"github.com/pojntfx/stfs/pkg/config"
	"github.com/pojntfx/stfs/pkg/fs"
	"github.com/pojntfx/stfs/pkg/mtio"
	"github.com/pojntfx/stfs/pkg/operations"
	"github.com/pojntfx/stfs/pkg/persisters"
	"github.com/pojntfx/stfs/pkg/recovery"
	"github.com/pojntfx/stfs/pkg/tape"
)

type inst struct {
	fs    *fs.STFS
	ops   *operations.Operations
	meta  *persisters.MetadataPersister
	tm    *tape.TapeManager
	drive string
	db    string
	rs    int
}

// open wires an STFS instance over the tar file `drive` and the index `db` (no compression, encryption, signature)
func open(t *testing.T, drive, db string, rs int, initialize bool) *inst {
	t.Helper()

	mt := mtio.MagneticTapeIO{}
	tm := tape.NewTapeManager(drive, mt, rs, false)

	mp := persisters.NewMetadataPersister(db)
	if err := mp.Open(); err != nil {
		t.Fatal(err)
	}

	l := &examples.Logger{Verbose: false}
	mc := config.MetadataConfig{Metadata: mp}
	pc := config.PipeConfig{RecordSize: rs}
	bc := config.BackendConfig{
		GetWriter: tm.GetWriter, CloseWriter: tm.Close,
		GetReader: tm.GetReader, CloseReader: tm.Close,
		MagneticTapeIO: mt,
	}
	ops := operations.NewOperations(bc, mc, pc, config.CryptoConfig{}, func(event *config.HeaderEvent) {})

	s := fs.NewSTFS(ops, ops, mc, config.CompressionLevelFastestKey,
		func() (cache.WriteCache, func() error, error) {
			return cache.NewCacheWrite("", config.WriteCacheTypeMemory)
		},
		false, false, func(hdr *config.Header) {}, l)

	if initialize {
		if _, err := s.Initialize("/", os.ModePerm); err != nil {
			t.Fatal("Initialize:", err)
		}
	}

	return &inst{fs: s, ops: ops, meta: mp, tm: tm, drive: drive, db: db, rs: rs}
}

func newInst(t *testing.T, rs int) *inst {
	dir := t.TempDir()
	return open(t, filepath.Join(dir, "tape.tar"), filepath.Join(dir, "index.sqlite"), rs, true)
}

// rebuilt returns an instance over the same tape with a brand new index (Initialize replays the tape)
func (i *inst) rebuilt(t *testing.T) *inst {
	t.Helper()
	return open(t, i.drive, filepath.Join(t.TempDir(), "rebuilt.sqlite"), i.rs, true)
}

// reopened returns a fresh instance over the same tape and the same index file
func (i *inst) reopened(t *testing.T) *inst {
	t.Helper()
	return open(t, i.drive, i.db, i.rs, true)
}

// replay replays the whole tape into the existing index without wiping it, like `stfs recovery index` without -o
func (i *inst) replay(t *testing.T) error {
	t.Helper()
	r, reg, err := tape.OpenTapeReadOnly(i.drive)
	if err != nil {
		t.Fatal(err)
	}
	defer r.Close()

	return recovery.Index(
		config.DriveReaderConfig{Drive: r, DriveIsRegular: reg},
		mtio.MagneticTapeIO{},
		config.MetadataConfig{Metadata: i.meta},
		config.PipeConfig{RecordSize: i.rs},
		config.CryptoConfig{},
		0, 0, false, false, 0,
		func(hdr *tar.Header, i int) error { return nil },
		func(hdr *tar.Header, isRegular bool) error { return nil },
		func(hdr *config.Header) {},
	)
}

// snapshot describes the visible tree: one line per entry
func (i *inst) snapshot(t *testing.T) string {
	t.Helper()
	lines := []string{}

	var walk func(p string)
	walk = func(p string) {
		info, err := i.fs.Stat(p)
		if err != nil {
			lines = append(lines, fmt.Sprintf("%s: stat error %v", p, err))
			return
		}
		line := fmt.Sprintf("%s mode=%v size=%d mtime=%v", p, info.Mode(), info.Size(), info.ModTime().UTC().Format(time.RFC3339Nano))
		if st, ok := info.Sys().(*fs.Stat); ok {
			line += fmt.Sprintf(" uid=%d gid=%d atime=%d", st.Uid, st.Gid, st.Atim.Nano())
		}
		if info.IsDir() {
			lines = append(lines, line)
			f, err := i.fs.Open(p)
			if err != nil {
				lines = append(lines, fmt.Sprintf("%s: open error %v", p, err))
				return
			}
			names, err := f.Readdirnames(-1)
			f.Close()
			if err != nil {
				lines = append(lines, fmt.Sprintf("%s: readdir error %v", p, err))
				return
			}
			sort.Strings(names)
			for _, n := range names {
				walk(filepath.Join(p, n))
			}
			return
		}

		f, err := i.fs.Open(p)
		if err != nil {
			lines = append(lines, line+fmt.Sprintf(" open error %v", err))
			return
		}
		done := make(chan struct{})
		var content []byte
		var rerr error
		go func() {
			content, rerr = io.ReadAll(f)
			close(done)
		}()
		select {
		case <-done:
		case <-time.After(20 * time.Second):
			lines = append(lines, line+" READ HANGS")
			return
		}
		f.Close()
		if rerr != nil {
			line += fmt.Sprintf(" read error %v", rerr)
		}
		c := string(content)
		if len(c) > 40 {
			c = fmt.Sprintf("%s...(%d bytes, sum %d)", c[:40], len(c), sum(content))
		}
		lines = append(lines, line+fmt.Sprintf(" content=%q", c))
	}
	walk("/")

	return strings.Join(lines, "\n")
}

func sum(b []byte) (s uint32) {
	for _, c := range b {
		s = s*31 + uint32(c)
	}
	return
}

func (i *inst) dump(t *testing.T) string {
	hdrs, err := i.meta.GetHeaders(context.Background())
	if err != nil {
		t.Fatal(err)
	}
	out := []string{}
	for _, h := range hdrs {
		out = append(out, fmt.Sprintf("%q link=%q rec=%d blk=%d lrec=%d lblk=%d size=%d del=%d", h.Name, h.Linkname, h.Record, h.Block, h.Lastknownrecord, h.Lastknownblock, h.Size, h.Deleted))
	}
	sort.Strings(out)
	return strings.Join(out, "\n")
}

func writeFile(t *testing.T, i *inst, name string, content string) {
	t.Helper()
	f, err := i.fs.Create(name)
	if err != nil {
		t.Fatalf("Create %s: %v", name, err)
	}
	if content != "" {
		if _, err := f.Write([]byte(content)); err != nil {
			t.Fatalf("Write %s: %v", name, err)
		}
	}
	if err := f.Close(); err != nil {
		t.Fatalf("Close %s: %v", name, err)
	}
}

// memSrc builds the getSrc callback of Archive/Update from (path, content) pairs; a nil content marks a directory
type member struct {
	path    string
	content *string
	err     error
}

func str(s string) *string { return &s }

type rsc struct{ *strings.Reader }

func (rsc) Close() error { return nil }

func memSrc(members []member) func() (config.FileConfig, error) {
	n := 0
	return func() (config.FileConfig, error) {
		if n >= len(members) {
			return config.FileConfig{}, io.EOF
		}
		m := members[n]
		n++
		if m.err != nil {
			return config.FileConfig{}, m.err
		}
		hdr := &tar.Header{Typeflag: tar.TypeReg, Name: m.path, Mode: 0644, ModTime: time.Unix(1700000000, 0)}
		if m.content == nil {
			hdr.Typeflag = tar.TypeDir
			hdr.Mode = 0755
		} else {
			hdr.Size = int64(len(*m.content))
		}
		return config.FileConfig{
			GetFile: func() (io.ReadSeekCloser, error) { return rsc{strings.NewReader(*m.content)}, nil },
			Info:    hdr.FileInfo(),
			Path:    m.path,
		}, nil
	}
}

func checkEquiv(t *testing.T, i *inst, what string) {
	t.Helper()
	live := i.snapshot(t)
	reb := i.rebuilt(t).snapshot(t)
	if live != reb {
		t.Errorf("%s: live instance and rebuilt index differ\n--- live:\n%s\n--- rebuilt from tape:\n%s", what, live, reb)
	}
	re := i.reopened(t).snapshot(t)
	if live != re {
		t.Errorf("%s: live instance and reopened index differ\n--- live:\n%s\n--- reopened:\n%s", what, live, re)
	}
}
