package huntd

import (
	"sort"
	"context"
	"fmt"
	"io"
	"math/rand"
	"os"
	"path/filepath"
	"strings"
	"testing"
	"time"
)

func copyFile(t *testing.T, from, to string) {
	in, err := os.Open(from)
	if err != nil {
		t.Fatal(err)
	}
	defer in.Close()
	out, err := os.Create(to)
	if err != nil {
		t.Fatal(err)
	}
	defer out.Close()
	if _, err := io.Copy(out, in); err != nil {
		t.Fatal(err)
	}
}

// fullCheck: live == rebuilt == reopened, replay into copies of earlier indexes converges
func fullCheck(t *testing.T, i *inst, what string, saved *[]string) bool {
	t.Helper()
	ok := true
	live := i.snapshot(t)
	rebI := i.rebuilt(t)
	reb := rebI.snapshot(t)
	if live != reb {
		t.Errorf("%s: live vs rebuilt differ\n--- live:\n%s\n--- rebuilt:\n%s\n--- live idx:\n%s\n--- rebuilt idx:\n%s", what, live, reb, i.dump(t), rebI.dump(t))
		ok = false
	}
	// positions
	lr, lb, err := i.meta.GetLastIndexedRecordAndBlock(context.Background(), i.rs)
	rr, rb, err2 := rebI.meta.GetLastIndexedRecordAndBlock(context.Background(), i.rs)
	if err != nil || err2 != nil || lr != rr || lb != rb {
		t.Errorf("%s: last indexed position live (%d,%d,%v) rebuilt (%d,%d,%v)", what, lr, lb, err, rr, rb, err2)
		ok = false
	}
	if i.dumpPos(t) != rebI.dumpPos(t) {
		t.Errorf("%s: positions differ\n--- live idx:\n%s\n--- rebuilt idx:\n%s", what, i.dumpPos(t), rebI.dumpPos(t))
		ok = false
	}

	// save a copy of the live index
	cp := filepath.Join(t.TempDir(), "copy.sqlite")
	copyFile(t, i.db, cp)
	*saved = append(*saved, cp)

	for n, s := range *saved {
		cp2 := filepath.Join(t.TempDir(), "replay.sqlite")
		copyFile(t, s, cp2)
		ri := open(t, i.drive, cp2, i.rs, true)
		if err := ri.replay(t); err != nil {
			t.Errorf("%s: replay into index of prefix %d: %v", what, n, err)
			ok = false
			continue
		}
		if got := ri.snapshot(t); got != reb {
			t.Errorf("%s: replay into index of prefix %d differs from rebuild\n--- replayed:\n%s\n--- rebuilt:\n%s", what, n, got, reb)
			ok = false
		}
		if ri.dumpPos(t) != rebI.dumpPos(t) {
			t.Errorf("%s: replay into index of prefix %d: positions differ\n--- replayed:\n%s\n--- rebuilt:\n%s", what, n, ri.dumpPos(t), rebI.dumpPos(t))
			ok = false
		}
	}
	return ok
}

func (i *inst) dumpPos(t *testing.T) string {
	lines := strings.Split(i.dump(t), "\n")
	for n, l := range lines {
		for _, pre := range []string{"\"./", "\"/", "\".\""} {
			if strings.HasPrefix(l, pre) {
				l = "\"" + strings.TrimPrefix(l, pre)
				if pre == "\".\"" {
					l = "\"" + l
				}
				break
			}
		}
		l = strings.Replace(l, "/\" link", "\" link", 1)
		lines[n] = l
	}
	sort.Strings(lines)
	return strings.Join(lines, "\n")
}

func TestExploreRandom(t *testing.T) {
	names := []string{"/a", "/b", "/d", "/d/a", "/d/b", "/d/e", "/d/e/a", "/e", "/e/a", "/D", "/d_", "/d%", "/ä", "/a b", "/" + strings.Repeat("L", 120), "/d/" + strings.Repeat("M", 101)}
	for seed := int64(0); seed < 6; seed++ {
		for _, rs := range []int{1, 3, 20} {
			seed, rs := seed, rs
			t.Run(fmt.Sprintf("seed%d_rs%d", seed, rs), func(t *testing.T) {
				rnd := rand.New(rand.NewSource(seed*100 + int64(rs)))
				i := newInst(t, rs)
				saved := []string{}
				hist := []string{}
				for step := 0; step < 25; step++ {
					n := names[rnd.Intn(len(names))]
					m := names[rnd.Intn(len(names))]
					var err error
					var op string
					switch rnd.Intn(10) {
					case 0, 1:
						size := []int{0, 1, 511, 512, 513, 1500, 10240, 30000}[rnd.Intn(8)]
						op = fmt.Sprintf("write %s %d", n, size)
						var f interface {
							Write([]byte) (int, error)
							Close() error
						}
						f, err = i.fs.Create(n)
						if err == nil {
							c := []byte(strings.Repeat(fmt.Sprintf("%d-%s|", step, n), size/len(fmt.Sprintf("%d-%s|", step, n))+1))[:size]
							if size > 0 {
								_, err = f.Write(c)
							}
							if e := f.Close(); err == nil {
								err = e
							}
						}
					case 2:
						op = "mkdir " + n
						err = i.fs.Mkdir(n, 0750)
					case 3:
						op = "mkdirall " + n
						err = i.fs.MkdirAll(n, 0700)
					case 4:
						op = "remove " + n
						err = i.fs.Remove(n)
					case 5:
						op = "removeall " + n
						if n != "/" {
							err = i.fs.RemoveAll(n)
						}
					case 6, 7:
						op = "rename " + n + " " + m
						err = i.fs.Rename(n, m)
					case 8:
						op = "chmod " + n
						err = i.fs.Chmod(n, os.FileMode(rnd.Intn(0777)))
					case 9:
						op = "chtimes " + n
						err = i.fs.Chtimes(n, time.Unix(int64(rnd.Intn(2000000000)), int64(rnd.Intn(1000000000))), time.Unix(int64(rnd.Intn(2000000000))-100000000, int64(rnd.Intn(2))*123456789))
					}
					hist = append(hist, fmt.Sprintf("%s -> %v", op, err))
					if !fullCheck(t, i, strings.Join(hist, "\n"), &saved) {
						return
					}
				}
			})
		}
	}
}
