package huntd

import (
	"os"
	"testing"
	"time"
)

func TestExploreOps(t *testing.T) {
	i := newInst(t, 3)
	saved := []string{}
	step := func(what string, err error) {
		t.Helper()
		t.Log(what, "->", err)
		if !fullCheck(t, i, what, &saved) {
			t.FailNow()
		}
	}
	_, err := i.ops.Archive(memSrc([]member{{path: "/d/"}, {path: "/d/x", content: str("xxx")}, {path: "/d/sub/"}, {path: "/d/sub/y", content: str("yyyy")}}), "fastest", false, false)
	step("archive dir with slashes", err)
	_, err = i.ops.Archive(memSrc([]member{{path: "/dup", content: str("one")}, {path: "/dup", content: str("two!")}}), "fastest", false, false)
	step("archive duplicates", err)
	_, err = i.ops.Archive(memSrc([]member{{path: "rel", content: str("relative")}, {path: "./rel2", content: str("relative2")}}), "fastest", false, false)
	step("archive relative", err)
	_, err = i.ops.Update(memSrc([]member{{path: "/dup", content: str("three")}, {path: "dup", content: str("four4")}}), "fastest", true, true)
	step("update duplicates", err)
	step("move rel", i.ops.Move("rel", "/rel3"))
	step("move onto live", i.ops.Move("/rel3", "/dup"))
	step("move dir", i.ops.Move("/d/", "/e"))
	step("move dir2", i.ops.Move("/d", "/e"))
	step("chmod", i.fs.Chmod("/d", 0700))
	step("rename", i.fs.Rename("/d", "/f"))
	step("delete", i.ops.Delete("/d/sub/"))
	step("delete", i.ops.Delete("/d/"))
	step("delete", i.ops.Delete("/f"))
	step("delete", i.ops.Delete("/e"))
	_, err = i.ops.Update(memSrc([]member{{path: "/dup", content: str("")}}), "fastest", true, false)
	step("update empty no skipSizeCheck", err)
	_, err = i.ops.Update(memSrc([]member{{path: "/dup", content: str("meta")}}), "fastest", false, false)
	step("update meta only", err)
}

func TestExploreMeta(t *testing.T) {
	i := newInst(t, 20)
	saved := []string{}
	step := func(what string, err error) {
		t.Helper()
		t.Log(what, "->", err)
		if !fullCheck(t, i, what, &saved) {
			t.FailNow()
		}
	}
	writeFile(t, i, "/a", "x")
	step("chown -1", i.fs.Chown("/a", -1, -1))
	step("chown big", i.fs.Chown("/a", 1<<31, 1<<40))
	step("chmod sticky", i.fs.Chmod("/a", os.ModeSticky|os.ModeSetuid|0644))
	step("chmod dirbit", i.fs.Chmod("/a", os.ModeDir|0755))
	step("chmod symlinkbit", i.fs.Chmod("/a", os.ModeSymlink|0755))
	step("chmod root", i.fs.Chmod("/", 0700))
	step("chtimes old", i.fs.Chtimes("/a", time.Unix(-1000, 5), time.Unix(-5000000000, 7)))
	step("chtimes far", i.fs.Chtimes("/a", time.Unix(1<<35, 5), time.Unix(1<<36, 7)))
	step("chtimes zero atime", i.fs.Chtimes("/a", time.Time{}, time.Unix(100, 0)))
	step("mkdir mode", i.fs.Mkdir("/m", os.ModeSticky|0777))
	step("mkdir mode", i.fs.Mkdir("/m2", 01777))
	f, err := i.fs.OpenFile("/perm", os.O_CREATE|os.O_WRONLY, os.ModeSetgid|0640)
	if err == nil {
		f.Close()
	}
	step("openfile perm", err)
	f, err = i.fs.OpenFile("/perm2", os.O_CREATE|os.O_WRONLY, 07777)
	if err == nil {
		f.Write([]byte("z"))
		f.Close()
	}
	step("openfile perm 07777", err)
}
