//go:build race

package huntf

const raceEnabled = true
