package huntf

import (
	"context"
	"errors"
	"os"
	"path/filepath"
	"sync"
	"sync/atomic"
	"testing"
	"time"

	"github.com/pojntfx/stfs/pkg/config"
	"github.com/spf13/afero"
)

// F1 [C10]: operations.NewOperations accepts a nil onHeader (Restore and the "not yet indexed" events in Archive/Update/
// Delete/Move guard it with `if o.onHeader != nil`), but the callback handed to recovery.Index at the end of Archive,
// Update, Delete and Move calls o.onHeader unguarded. The first writing call of a filesystem built that way crashes.
func TestF1_NilOnHeaderCrashesWritingCalls(t *testing.T) {
	tmp := t.TempDir()
	// Prepare tape and index with a normally wired instance, then re-open them with onHeader == nil
	w, _ := newFS(t, filepath.Join(tmp, "d.tar"), filepath.Join(tmp, "m.sqlite"), opts{})
	for _, d := range []string{"/r", "/c", "/x"} {
		if err := w.Mkdir(d, 0o755); err != nil {
			t.Fatal(err)
		}
	}
	s, _ := newFS(t, filepath.Join(tmp, "d.tar"), filepath.Join(tmp, "m.sqlite"), opts{nilOnHeader: true})

	call := func(what string, fn func() error) {
		defer func() {
			if r := recover(); r != nil {
				t.Errorf("%v crashed instead of returning (operations built with onHeader == nil): %v", what, r)
			}
		}()
		if err := fn(); err != nil {
			t.Logf("%v returned %v", what, err)
		}
	}

	call("Mkdir", func() error { return s.Mkdir("/a", 0o755) })
	call("Rename", func() error { return s.Rename("/r", "/r2") })
	call("Chmod", func() error { return s.Chmod("/c", 0o700) })
	call("Remove", func() error { return s.Remove("/x") })
}

// overlapMP notices when two filesystem calls are inside the index store at the same time
type overlapMP struct {
	config.MetadataPersister
	inUpsert atomic.Bool
	overlap  atomic.Bool
}

func (m *overlapMP) UpsertHeader(ctx context.Context, h *config.Header, i bool) error {
	m.inUpsert.Store(true)
	time.Sleep(300 * time.Millisecond) // a slow index store; Mkdir holds the filesystem lock meanwhile
	defer m.inUpsert.Store(false)
	return m.MetadataPersister.UpsertHeader(ctx, h, i)
}

func (m *overlapMP) GetHeader(ctx context.Context, n string) (*config.Header, error) {
	if m.inUpsert.Load() {
		m.overlap.Store(true)
	}
	return m.MetadataPersister.GetHeader(ctx, n)
}

// F2a [C11]: STFS.Create looks the parent up in the index BEFORE taking the filesystem lock (every other call locks first),
// so it reads the (unsynchronised) MetadataPersister while another call is in the middle of changing it.
func TestF2a_CreateQueriesIndexWithoutFilesystemLock(t *testing.T) {
	tmp := t.TempDir()
	var om *overlapMP
	s := newFSWithPersister(t, tmp, func(mp config.MetadataPersister) config.MetadataPersister {
		om = &overlapMP{MetadataPersister: mp}
		return om
	})

	var wg sync.WaitGroup
	wg.Add(1)
	go func() {
		defer wg.Done()
		_ = s.Mkdir("/slow", 0o755)
	}()
	for !om.inUpsert.Load() {
		time.Sleep(time.Millisecond)
	}

	// Control: Stat takes the lock first, so it must not reach the index while Mkdir is in it
	statDone := make(chan struct{})
	go func() { _, _ = s.Stat("/nodir"); close(statDone) }()
	time.Sleep(50 * time.Millisecond)
	if om.overlap.Load() {
		t.Fatal("control failed: Stat reached the index during Mkdir")
	}

	_, _ = s.Create("/nodir/f")
	if om.overlap.Load() {
		t.Errorf("Create reached the index store while Mkdir (holding the filesystem lock) was inside UpsertHeader: Create does not serialise its parent lookup")
	}
	wg.Wait()
	<-statDone
}

// F2b [C11]: consequence of F2a, visible with `go test -race`: with the (supported, see initializeTests) root "" the
// persister never caches a root, so every GetRootPath (Rename, under the lock) WRITES MetadataPersister.root, while
// Create's unlocked parent lookup READS it in getSanitizedPath. Run with -race (the race detector then fails the test).
func TestF2b_RaceCreateVsRenameEmptyRoot(t *testing.T) {
	if !raceEnabled {
		t.Skip("needs -race")
	}
	tmp := t.TempDir()
	s, _ := newFS(t, filepath.Join(tmp, "d.tar"), filepath.Join(tmp, "m.sqlite"), opts{skipInit: true, wrap: func(mp config.MetadataPersister) config.MetadataPersister {
		return &delayMP{mp}
	}})
	if _, err := s.Initialize("", os.ModePerm); err != nil {
		t.Fatal(err)
	}

	// Rename: GetRootPath writes MetadataPersister.root under the filesystem lock, then pauses (slow index store) before its next lookup.
	// Create, 200ms later, reads MetadataPersister.root without ever having taken that lock. Nothing orders the two accesses.
	var wg sync.WaitGroup
	wg.Add(2)
	go func() {
		defer wg.Done()
		_ = s.Rename("nothing", "nothing2")
	}()
	go func() {
		defer wg.Done()
		time.Sleep(200 * time.Millisecond)
		_, _ = s.Create("nodir/f")
	}()
	wg.Wait()
}

// delayMP is a slow index store: looking up "nothing" takes 500ms (no synchronisation involved)
type delayMP struct {
	config.MetadataPersister
}

func (m *delayMP) GetHeader(ctx context.Context, n string) (*config.Header, error) {
	if n == "nothing" {
		time.Sleep(500 * time.Millisecond)
	}
	return m.MetadataPersister.GetHeader(ctx, n)
}

// F3 [C15]: on a read-only filesystem OpenFile with mutating flags does not fail with a permission error:
// O_CREATE on a missing name says "file does not exist", O_TRUNC / O_WRONLY / O_APPEND on an existing file succeed.
// (Create(), Mkdir(), Remove(), ... all answer os.ErrPermission.)
func TestF3_ReadOnlyOpenFileMutatingFlags(t *testing.T) {
	tmp := t.TempDir()
	drive, meta := filepath.Join(tmp, "d.tar"), filepath.Join(tmp, "m.sqlite")
	w, _ := newFS(t, drive, meta, opts{})
	if err := afero.WriteFile(w, "/f", []byte("hello"), 0o644); err != nil {
		t.Fatal(err)
	}

	ro, _ := newFS(t, drive, meta, opts{readOnly: true, noWriteOps: true, noFileBuffer: true})

	if _, err := ro.Create("/missing"); !errors.Is(err, os.ErrPermission) {
		t.Fatalf("control: Create on read-only = %v", err)
	}

	for _, c := range []struct {
		name string
		flag int
	}{
		{"/missing", os.O_RDWR | os.O_CREATE},
		{"/missing", os.O_WRONLY | os.O_CREATE | os.O_TRUNC},
		{"/f", os.O_WRONLY | os.O_TRUNC},
		{"/f", os.O_RDWR | os.O_TRUNC},
		{"/f", os.O_WRONLY | os.O_APPEND},
	} {
		f, err := ro.OpenFile(c.name, c.flag, 0o644)
		if !errors.Is(err, os.ErrPermission) {
			t.Errorf("read-only OpenFile(%q, %#x) = (handle %v, err %v), want a permission error", c.name, c.flag, f != nil, err)
		}
		if f != nil {
			f.Close()
		}
	}
}
