package huntf

import (
	"os"
	"path/filepath"
	"testing"
	"time"

	"github.com/pojntfx/stfs/examples"
	"github.com/pojntfx/stfs/pkg/cache"
	"github.com/pojntfx/stfs/pkg/config"
	"github.com/pojntfx/stfs/pkg/fs"
	"github.com/pojntfx/stfs/pkg/mtio"
	"github.com/pojntfx/stfs/pkg/operations"
	"github.com/pojntfx/stfs/pkg/persisters"
	"github.com/pojntfx/stfs/pkg/tape"
)

type opts struct {
	readOnly     bool
	noWriteOps   bool
	nilOnHeader  bool
	recordSize   int
	root         string
	skipInit     bool
	writeCache   string
	noFileBuffer bool
	wrap         func(config.MetadataPersister) config.MetadataPersister
}

// newFS wires an STFS over drive/metadata the way examples/full/main.go does (no compression, encryption, signature)
func newFS(t testing.TB, drive, metadata string, o opts) (*fs.STFS, *persisters.MetadataPersister) {
	t.Helper()

	if o.recordSize == 0 {
		o.recordSize = 20
	}
	if o.writeCache == "" {
		o.writeCache = config.WriteCacheTypeMemory
	}

	mt := mtio.MagneticTapeIO{}
	tm := tape.NewTapeManager(drive, mt, o.recordSize, false)

	mp := persisters.NewMetadataPersister(metadata)
	if err := mp.Open(); err != nil {
		t.Fatal(err)
	}

	l := &examples.Logger{Verbose: false}

	var store config.MetadataPersister = mp
	if o.wrap != nil {
		store = o.wrap(mp)
	}
	mc := config.MetadataConfig{Metadata: store}
	pc := config.PipeConfig{Compression: config.NoneKey, Encryption: config.NoneKey, Signature: config.NoneKey, RecordSize: o.recordSize}
	bc := config.BackendConfig{
		GetWriter:      tm.GetWriter,
		CloseWriter:    tm.Close,
		GetReader:      tm.GetReader,
		CloseReader:    tm.Close,
		MagneticTapeIO: mt,
	}

	var onHdr func(event *config.HeaderEvent)
	if !o.nilOnHeader {
		onHdr = func(event *config.HeaderEvent) {}
	}

	readOps := operations.NewOperations(bc, mc, pc, config.CryptoConfig{}, onHdr)
	var writeOps *operations.Operations
	if !o.noWriteOps {
		writeOps = operations.NewOperations(bc, mc, pc, config.CryptoConfig{}, onHdr)
	}

	getBuf := func() (cache.WriteCache, func() error, error) {
		return cache.NewCacheWrite(filepath.Join(filepath.Dir(drive), "wc"), o.writeCache)
	}
	if o.noFileBuffer {
		getBuf = nil
	}

	s := fs.NewSTFS(readOps, writeOps, mc, "", getBuf, o.readOnly, false, func(hdr *config.Header) {}, l)

	if !o.skipInit {
		root := o.root
		if root == "" {
			root = "/"
		}
		if _, err := s.Initialize(root, os.ModePerm); err != nil {
			t.Fatalf("Initialize: %v", err)
		}
	}

	return s, mp
}

// within runs fn and fails the test if it does not return in time
func within(t testing.TB, d time.Duration, what string, fn func()) bool {
	t.Helper()

	done := make(chan struct{})
	go func() {
		defer close(done)
		fn()
	}()

	select {
	case <-done:
		return true
	case <-time.After(d):
		t.Errorf("HANG: %v did not return within %v", what, d)
		return false
	}
}

func newFSWithPersister(t testing.TB, dir string, wrap func(config.MetadataPersister) config.MetadataPersister) *fs.STFS {
	s, _ := newFS(t, filepath.Join(dir, "d.tar"), filepath.Join(dir, "m.sqlite"), opts{wrap: wrap})
	return s
}
