//go:build !race

package huntf

const raceEnabled = false
