package hunta

import (
	"context"
	"os"
	"path/filepath"
	"sort"
	"testing"

	"github.com/pojntfx/stfs/pkg/cache"
	"github.com/pojntfx/stfs/pkg/config"
	"github.com/pojntfx/stfs/pkg/fs"
	"github.com/pojntfx/stfs/examples"
	"github.com/pojntfx/stfs/pkg/mtio"
	"github.com/pojntfx/stfs/pkg/operations"
	"github.com/pojntfx/stfs/pkg/persisters"
	"github.com/pojntfx/stfs/pkg/tape"
	"github.com/spf13/afero"
)

type env struct {
	mp    *persisters.MetadataPersister
	comp  string
	dir   string
	drive string
	db    string
	rs    int
	root  string
}

// openFs wires an uncompressed, unencrypted, unsigned STFS over a tar file; the same env can be opened again (re-opened instance)
func openFs(t *testing.T, e *env, rootProposal string) *fs.STFS {
	t.Helper()
	mt := mtio.MagneticTapeIO{}
	tm := tape.NewTapeManager(e.drive, mt, e.rs, false)
	mp := persisters.NewMetadataPersister(e.db)
	if err := mp.Open(); err != nil {
		t.Fatal(err)
	}
	e.mp = mp
	mc := config.MetadataConfig{Metadata: mp}
	pc := config.PipeConfig{Compression: e.comp, Encryption: config.NoneKey, Signature: config.NoneKey, RecordSize: e.rs}
	bc := config.BackendConfig{GetWriter: tm.GetWriter, CloseWriter: tm.Close, GetReader: tm.GetReader, CloseReader: tm.Close, MagneticTapeIO: mt}
	l := &examples.Logger{Verbose: false}
	ro := operations.NewOperations(bc, mc, pc, config.CryptoConfig{}, func(*config.HeaderEvent) {})
	wo := operations.NewOperations(bc, mc, pc, config.CryptoConfig{}, func(*config.HeaderEvent) {})
	s := fs.NewSTFS(ro, wo, mc, config.CompressionLevelFastestKey, func() (cache.WriteCache, func() error, error) {
		return cache.NewCacheWrite(filepath.Join(e.dir, "wc"), config.WriteCacheTypeFile)
	}, false, true, func(*config.Header) {}, l)
	root, err := s.Initialize(rootProposal, os.ModePerm)
	if err != nil {
		t.Fatal(err)
	}
	e.root = root
	return s
}

func (e *env) header(t *testing.T, name string) (*config.Header, error) {
	t.Helper()
	return e.mp.GetHeader(context.Background(), name)
}

func newEnv(t *testing.T, rs int) *env {
	t.Helper()
	dir := t.TempDir()
	return &env{comp: config.NoneKey, dir: dir, drive: filepath.Join(dir, "drive.tar"), db: filepath.Join(dir, "index.sqlite"), rs: rs}
}

// rebuilt returns a fresh instance over the same tar file with an EMPTY index (so that it is rebuilt by replay)
func rebuilt(t *testing.T, e *env) *fs.STFS {
	t.Helper()
	e2 := &env{comp: e.comp, dir: e.dir, drive: e.drive, db: filepath.Join(e.dir, "rebuilt.sqlite"), rs: e.rs}
	_ = os.Remove(e2.db)
	return openFs(t, e2, "/")
}

func tree(t *testing.T, f afero.Fs, root string) []string {
	t.Helper()
	out := []string{}
	var walk func(p string)
	walk = func(p string) {
		d, err := f.Open(p)
		if err != nil {
			t.Fatalf("open %q: %v", p, err)
		}
		infos, err := d.Readdir(-1)
		d.Close()
		if err != nil {
			t.Fatalf("readdir %q: %v", p, err)
		}
		for _, i := range infos {
			c := filepath.Join(p, i.Name())
			if i.IsDir() {
				out = append(out, c+"/")
				walk(c)
			} else {
				out = append(out, c)
			}
		}
	}
	walk(root)
	sort.Strings(out)
	return out
}

func writeFile(t *testing.T, f afero.Fs, name string, content string) {
	t.Helper()
	h, err := f.OpenFile(name, os.O_WRONLY|os.O_CREATE|os.O_TRUNC, 0o644)
	if err != nil {
		t.Fatalf("create %q: %v", name, err)
	}
	if content != "" {
		if _, err := h.Write([]byte(content)); err != nil {
			t.Fatalf("write %q: %v", name, err)
		}
	}
	if err := h.Close(); err != nil {
		t.Fatalf("close %q: %v", name, err)
	}
}

func readFile(t *testing.T, f afero.Fs, name string) (string, error) {
	t.Helper()
	b, err := afero.ReadFile(f, name)
	return string(b), err
}
