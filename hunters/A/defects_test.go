package hunta

import (
	"io"
	"os"
	"reflect"
	"testing"
	"time"

	"github.com/pojntfx/stfs/pkg/config"
)

// D1 [C02]: Chtimes with a time whose zone has no alphabetic abbreviation (i.e. what time.Parse(time.RFC3339, "...+01:00")
// returns, or zones like Australia/Lord_Howe "+1030") succeeds, but afterwards the entry can't be read from the index any more
func TestD1_ChtimesNumericZoneMakesEntryUnreadable(t *testing.T) {
	e := newEnv(t, 20)
	f := openFs(t, e, "/")
	if err := f.Mkdir("/d", 0o755); err != nil {
		t.Fatal(err)
	}
	writeFile(t, f, "/d/f", "hello")
	writeFile(t, f, "/d/other", "x")

	ts, err := time.Parse(time.RFC3339, "2020-07-01T12:00:00+01:00") // Location is time.FixedZone("", 3600)
	if err != nil {
		t.Fatal(err)
	}
	if err := f.Chtimes("/d/f", ts, ts); err != nil {
		t.Fatalf("Chtimes failed (would be acceptable if it changed nothing): %v", err)
	}

	info, err := f.Stat("/d/f")
	if err != nil {
		t.Errorf("Stat(/d/f) after successful Chtimes(%v) fails: %v", ts, err)
	} else if !info.ModTime().Equal(ts) {
		t.Errorf("ModTime = %v, want %v", info.ModTime(), ts)
	}
	if _, err := readFile(t, f, "/d/f"); err != nil {
		t.Errorf("reading /d/f after Chtimes fails: %v", err)
	}
	d, err := f.Open("/d")
	if err != nil {
		t.Fatal(err)
	}
	if _, err := d.Readdir(-1); err != nil {
		t.Errorf("listing the parent directory (with an untouched sibling) after Chtimes fails: %v", err)
	}
	if err := f.Remove("/d/f"); err != nil {
		t.Errorf("Remove(/d/f) after Chtimes fails: %v", err)
	}
}

// D2 [C02]: with a compression (or encryption) configured, a regular file whose name ends in the pipeline's suffix
// (.gz, .lz4, .zst, .br, .bz2, .age, .pgp) loses that suffix in the index
func TestD2_NameEndingInPipelineSuffix(t *testing.T) {
	e := newEnv(t, 20)
	e.comp = config.CompressionFormatGZipKey
	f := openFs(t, e, "/")

	h, err := f.Create("/backup.tar.gz")
	if err != nil {
		t.Errorf("Create(/backup.tar.gz) with gzip compression: %v", err)
	} else {
		h.Close()
	}
	if got, want := tree(t, f, "/"), []string{"/backup.tar.gz"}; !reflect.DeepEqual(got, want) {
		t.Errorf("after Create(/backup.tar.gz): tree = %q, want %q", got, want)
	}

	// An innocent entry is replaced
	e = newEnv(t, 20)
	e.comp = config.CompressionFormatGZipKey
	f = openFs(t, e, "/")
	writeFile(t, f, "/x", "precious")
	writeFile(t, f, "/y", "other")
	if err := f.Rename("/y", "/x.gz"); err != nil {
		t.Errorf("Rename(/y, /x.gz): %v", err)
	}
	if got, want := tree(t, f, "/"), []string{"/x", "/x.gz"}; !reflect.DeepEqual(got, want) {
		t.Errorf("after Rename(/y, /x.gz): tree = %q, want %q", got, want)
	}
	if got, _ := readFile(t, f, "/x"); got != "precious" {
		t.Errorf("after Rename(/y, /x.gz): content of the untouched /x = %q, want %q", got, "precious")
	}
}

// D3 [C02/C12]: the root directory can be removed; afterwards no call works any more
func TestD3_RootCanBeRemoved(t *testing.T) {
	for _, tc := range []struct {
		name string
		call func(f interface {
			Remove(string) error
			RemoveAll(string) error
		}) error
	}{
		{"Remove(/) on an empty file system", func(f interface {
			Remove(string) error
			RemoveAll(string) error
		}) error {
			return f.Remove("/")
		}},
		{"RemoveAll(/)", func(f interface {
			Remove(string) error
			RemoveAll(string) error
		}) error {
			return f.RemoveAll("/")
		}},
		{"RemoveAll(\"\")", func(f interface {
			Remove(string) error
			RemoveAll(string) error
		}) error {
			return f.RemoveAll("")
		}},
	} {
		e := newEnv(t, 20)
		f := openFs(t, e, "/")
		err := tc.call(f)
		if _, serr := f.Stat("/"); serr != nil {
			t.Errorf("%s returned %v; afterwards Stat(/) = %v", tc.name, err, serr)
		}
		if merr := f.Mkdir("/new", 0o755); merr != nil {
			t.Errorf("%s returned %v; afterwards Mkdir(/new) = %v", tc.name, err, merr)
		}
	}
}

// D4 [C02]: closing a write handle writes back the attributes the entry had when the handle was opened
func TestD4_WriteHandleRevertsAttributes(t *testing.T) {
	e := newEnv(t, 20)
	f := openFs(t, e, "/")
	writeFile(t, f, "/a", "hello") // mode 0644

	h, err := f.OpenFile("/a", os.O_RDWR, 0)
	if err != nil {
		t.Fatal(err)
	}
	if err := f.Chmod("/a", 0o600); err != nil {
		t.Fatal(err)
	}
	if err := f.Chown("/a", 42, 43); err != nil {
		t.Fatal(err)
	}
	if _, err := h.Write([]byte("J")); err != nil {
		t.Fatal(err)
	}
	if err := h.Close(); err != nil {
		t.Fatal(err)
	}

	info, err := f.Stat("/a")
	if err != nil {
		t.Fatal(err)
	}
	if info.Mode().Perm() != 0o600 {
		t.Errorf("mode after open, Chmod(0600), write, close = %v, want -rw-------", info.Mode())
	}
	hdr, err := e.header(t, "/a")
	if err != nil {
		t.Fatal(err)
	}
	if hdr.UID != 42 || hdr.Gid != 43 {
		t.Errorf("owner after open, Chown(42, 43), write, close = %d:%d, want 42:43", hdr.UID, hdr.Gid)
	}
}

// D5 [C02]: Readdir(n) / Readdirnames(n) with n > 0 always start at the first entry and never report io.EOF
func TestD5_ReaddirNDoesNotAdvance(t *testing.T) {
	e := newEnv(t, 20)
	f := openFs(t, e, "/")
	for _, n := range []string{"/a", "/b", "/c"} {
		writeFile(t, f, n, "")
	}
	d, err := f.Open("/")
	if err != nil {
		t.Fatal(err)
	}
	defer d.Close()

	seen := []string{}
	for i := 0; i < 10; i++ {
		infos, err := d.Readdir(1)
		if err == io.EOF {
			break
		}
		if err != nil {
			t.Fatal(err)
		}
		for _, info := range infos {
			seen = append(seen, info.Name())
		}
	}
	if len(seen) != 3 {
		t.Errorf("reading a directory of 3 entries with Readdir(1) until io.EOF (gave up after 10 calls) returned %q", seen)
	}
}

// D6 [C02]: Chmod / Mkdir / OpenFile drop the setuid, setgid and sticky bits
func TestD6_SpecialModeBitsAreDropped(t *testing.T) {
	e := newEnv(t, 20)
	f := openFs(t, e, "/")
	writeFile(t, f, "/a", "hello")
	if err := f.Chmod("/a", 0o755|os.ModeSetuid); err != nil {
		t.Fatal(err)
	}
	info, err := f.Stat("/a")
	if err != nil {
		t.Fatal(err)
	}
	if info.Mode()&os.ModeSetuid == 0 {
		t.Errorf("mode after Chmod(0755|ModeSetuid) = %v, want urwxr-xr-x", info.Mode())
	}
	if err := f.Mkdir("/tmp", 0o777|os.ModeSticky); err != nil {
		t.Fatal(err)
	}
	if err := f.Chmod("/tmp", 0o777|os.ModeSticky); err != nil {
		t.Fatal(err)
	}
	info, err = f.Stat("/tmp")
	if err != nil {
		t.Fatal(err)
	}
	if info.Mode()&os.ModeSticky == 0 {
		t.Errorf("mode after Chmod(/tmp, 0777|ModeSticky) = %v, want dtrwxrwxrwx", info.Mode())
	}
}

// D7 [C02]: what is written through a handle after the file has been renamed is lost, and Close reports a raw SQL error
func TestD7_WriteAfterRenameIsLost(t *testing.T) {
	e := newEnv(t, 20)
	f := openFs(t, e, "/")
	h, err := f.Create("/f")
	if err != nil {
		t.Fatal(err)
	}
	if _, err := h.Write([]byte("abc")); err != nil {
		t.Fatal(err)
	}
	if err := h.Sync(); err != nil {
		t.Fatal(err)
	}
	if err := f.Rename("/f", "/g"); err != nil {
		t.Fatal(err)
	}
	if _, err := h.Write([]byte("def")); err != nil {
		t.Fatal(err)
	}
	cerr := h.Close()
	got, err := readFile(t, f, "/g")
	if err != nil {
		t.Fatal(err)
	}
	if cerr != nil || got != "abcdef" {
		t.Errorf("create /f, write abc, sync, rename /f /g, write def, close: Close() = %v, content of /g = %q, want <nil> and %q", cerr, got, "abcdef")
	}
}

// D8 [C02]: Chtimes with the zero time: the index that is kept up to date says year 1, the index rebuilt from the tape says 1970
func TestD8_ZeroTimeDiffersAfterRebuild(t *testing.T) {
	e := newEnv(t, 20)
	f := openFs(t, e, "/")
	writeFile(t, f, "/a", "hello")
	if err := f.Chtimes("/a", time.Time{}, time.Time{}); err != nil {
		t.Fatal(err)
	}
	live, err := f.Stat("/a")
	if err != nil {
		t.Fatal(err)
	}
	rb, err := rebuilt(t, e).Stat("/a")
	if err != nil {
		t.Fatal(err)
	}
	if !live.ModTime().Equal(rb.ModTime()) {
		t.Errorf("after Chtimes(time.Time{}): ModTime in the live index = %v, in the rebuilt index = %v", live.ModTime().UTC(), rb.ModTime().UTC())
	}
}
