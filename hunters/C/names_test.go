package huntc

import (
	"bytes"
	"io"
	"os"
	"testing"

	"github.com/pojntfx/stfs/pkg/config"
)

func roundTrip(t *testing.T, e *env, name string, content []byte) {
	t.Helper()

	f, err := e.fs.OpenFile(name, os.O_RDWR|os.O_CREATE|os.O_TRUNC, 0o644)
	if err != nil {
		t.Fatalf("OpenFile(%q, create): %v", name, err)
	}
	if _, err := f.Write(content); err != nil {
		t.Fatalf("Write: %v", err)
	}
	if err := f.Close(); err != nil {
		t.Fatalf("Close: %v", err)
	}

	info, err := e.fs.Stat(name)
	if err != nil {
		t.Fatalf("Stat(%q) after write+close: %v", name, err)
	}
	if info.Size() != int64(len(content)) {
		t.Fatalf("Stat(%q).Size() = %d, want %d", name, info.Size(), len(content))
	}

	r, err := e.fs.Open(name)
	if err != nil {
		t.Fatalf("Open: %v", err)
	}
	got, err := io.ReadAll(r)
	if err != nil {
		t.Fatalf("ReadAll: %v", err)
	}
	_ = r.Close()
	if !bytes.Equal(got, content) {
		t.Fatalf("read back %d bytes %q, want %d bytes", len(got), got[:min(len(got), 40)], len(content))
	}
}

func TestNamesProbe(t *testing.T) {
	names := []string{"/caf\xe9.txt", "/a\nb", "/" + string(bytes.Repeat([]byte("n"), 300)), "/sp ace", "/unié", "/a<b>&c", "/x\\y", "/q\"uote", "/tab\tx", "/%41", "/a?b*[c]", "/_under%"}
	for _, c := range []cfg{{}, {signature: config.SignatureFormatMinisignKey}, {encryption: config.EncryptionFormatAgeKey}} {
		e := newEnv(t, c)
		for _, n := range names {
			t.Run(c.signature+c.encryption+"_"+n, func(t *testing.T) {
				roundTrip(t, e, n, []byte("content of the file"))
			})
		}
	}
}

func readBack(t *testing.T, e *env, name string, content []byte) {
	t.Helper()

	info, err := e.fs.Stat(name)
	if err != nil {
		t.Fatalf("Stat(%q): %v", name, err)
	}
	if info.Size() != int64(len(content)) {
		t.Fatalf("Stat(%q).Size() = %d, want %d", name, info.Size(), len(content))
	}

	r, err := e.fs.Open(name)
	if err != nil {
		t.Fatalf("Open: %v", err)
	}
	got, err := io.ReadAll(r)
	if err != nil {
		t.Fatalf("ReadAll: %v", err)
	}
	_ = r.Close()
	if !bytes.Equal(got, content) {
		t.Fatalf("read back %d bytes, want %d bytes", len(got), len(content))
	}
}

func TestNamesProbeRebuilt(t *testing.T) {
	names := []string{"/caf\xe9.txt", "/a\nb", "/" + string(bytes.Repeat([]byte("n"), 300)), "/sp ace", "/unié", "/a<b>&c", "/x\\y", "/q\"uote", "/tab\tx"}
	for _, c := range []cfg{{}, {signature: config.SignatureFormatMinisignKey}, {encryption: config.EncryptionFormatAgeKey}} {
		e := newEnv(t, c)
		for _, n := range names {
			roundTrip(t, e, n, []byte("content of the file "+n))
		}
		e2 := e.reopen(t)
		for _, n := range names {
			t.Run(c.signature+c.encryption+"_"+n, func(t *testing.T) {
				readBack(t, e2, n, []byte("content of the file "+n))
			})
		}
	}
}
