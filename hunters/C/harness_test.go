package huntc

import (
	"os"
	"path/filepath"
	"testing"

	"github.com/pojntfx/stfs/examples"
	"github.com/pojntfx/stfs/pkg/cache"
	"github.com/pojntfx/stfs/pkg/config"
	"github.com/pojntfx/stfs/pkg/fs"
	"github.com/pojntfx/stfs/pkg/keys"
	"github.com/pojntfx/stfs/pkg/mtio"
	"github.com/pojntfx/stfs/pkg/operations"
	"github.com/pojntfx/stfs/pkg/persisters"
	"github.com/pojntfx/stfs/pkg/tape"
	"github.com/pojntfx/stfs/pkg/utility"
)

type cfg struct {
	recordSize       int
	prepareDrive     func(path string)
	compression      string
	compressionLevel string
	encryption       string
	signature        string
	writeCache       string
	writePermImpliesReadPerm bool
}

type keyset struct {
	signatureRecipient, signatureIdentity, encryptionRecipient, encryptionIdentity interface{}
}

type env struct {
	c    cfg
	keys *keyset
	fs       *fs.STFS
	readOps  *operations.Operations
	writeOps *operations.Operations
	drive    string
	dir      string
}

func newEnv(t testing.TB, c cfg) *env {
	t.Helper()

	return newEnvOn(t, c, "", nil)
}

// reopen builds a second instance on the same drive with a fresh (empty) index, which is rebuilt by replay in Initialize
func (e *env) reopen(t testing.TB) *env {
	t.Helper()

	return newEnvOn(t, e.c, e.drive, e.keys)
}

func newEnvOn(t testing.TB, c cfg, existingDrive string, ks *keyset) *env {
	t.Helper()

	if c.recordSize == 0 {
		c.recordSize = 20
	}
	if c.compressionLevel == "" {
		c.compressionLevel = config.CompressionLevelFastestKey
	}
	if c.writeCache == "" {
		c.writeCache = config.WriteCacheTypeMemory
	}

	dir := t.TempDir()
	drive := filepath.Join(dir, "drive.tar")
	if existingDrive != "" {
		drive = existingDrive
	}
	metadata := filepath.Join(dir, "metadata.sqlite")
	if c.prepareDrive != nil && existingDrive == "" {
		c.prepareDrive(drive)
	}

	var signatureRecipient, signatureIdentity, encryptionRecipient, encryptionIdentity interface{}
	if ks != nil {
		signatureRecipient, signatureIdentity, encryptionRecipient, encryptionIdentity = ks.signatureRecipient, ks.signatureIdentity, ks.encryptionRecipient, ks.encryptionIdentity
	}
	if ks == nil && c.signature != "" {
		priv, pub, err := utility.Keygen(config.PipeConfig{Signature: c.signature}, config.PasswordConfig{Password: "pw"})
		if err != nil {
			t.Fatal(err)
		}
		signatureRecipient, err = keys.ParseSignerRecipient(c.signature, pub)
		if err != nil {
			t.Fatal(err)
		}
		signatureIdentity, err = keys.ParseSignerIdentity(c.signature, priv, "pw")
		if err != nil {
			t.Fatal(err)
		}
	}
	if ks == nil && c.encryption != "" {
		priv, pub, err := utility.Keygen(config.PipeConfig{Encryption: c.encryption}, config.PasswordConfig{Password: "pw"})
		if err != nil {
			t.Fatal(err)
		}
		encryptionRecipient, err = keys.ParseRecipient(c.encryption, pub)
		if err != nil {
			t.Fatal(err)
		}
		encryptionIdentity, err = keys.ParseIdentity(c.encryption, priv, "pw")
		if err != nil {
			t.Fatal(err)
		}
	}

	mt := mtio.MagneticTapeIO{}
	tm := tape.NewTapeManager(drive, mt, c.recordSize, false)

	mp := persisters.NewMetadataPersister(metadata)
	if err := mp.Open(); err != nil {
		t.Fatal(err)
	}

	logger := &examples.Logger{}

	metadataConfig := config.MetadataConfig{Metadata: mp}
	pipeConfig := config.PipeConfig{
		Compression: c.compression,
		Encryption:  c.encryption,
		Signature:   c.signature,
		RecordSize:  c.recordSize,
	}
	backendConfig := config.BackendConfig{
		GetWriter:      tm.GetWriter,
		CloseWriter:    tm.Close,
		GetReader:      tm.GetReader,
		CloseReader:    tm.Close,
		MagneticTapeIO: mt,
	}

	readOps := operations.NewOperations(backendConfig, metadataConfig, pipeConfig,
		config.CryptoConfig{Recipient: signatureRecipient, Identity: encryptionIdentity, Password: "pw"},
		func(event *config.HeaderEvent) {})
	writeOps := operations.NewOperations(backendConfig, metadataConfig, pipeConfig,
		config.CryptoConfig{Recipient: encryptionRecipient, Identity: signatureIdentity, Password: "pw"},
		func(event *config.HeaderEvent) {})

	stfs := fs.NewSTFS(readOps, writeOps, metadataConfig, c.compressionLevel,
		func() (cache.WriteCache, func() error, error) {
			return cache.NewCacheWrite(filepath.Join(dir, "wc"), c.writeCache)
		},
		false, c.writePermImpliesReadPerm,
		func(hdr *config.Header) {}, logger)

	if _, err := stfs.Initialize("/", os.ModePerm); err != nil {
		t.Fatal(err)
	}

	return &env{c: c, keys: &keyset{signatureRecipient, signatureIdentity, encryptionRecipient, encryptionIdentity}, fs: stfs, readOps: readOps, writeOps: writeOps, drive: drive, dir: dir}
}
