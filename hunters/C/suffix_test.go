package huntc

import (
	"bytes"
	"io"
	"os"
	"testing"

	"github.com/pojntfx/stfs/pkg/config"
)

// A file whose own name ends in the suffix of the configured compression (or encryption) format cannot be
// created/written/read back: the empty "create" record is archived WITHOUT the pipeline suffix, but the indexer
// strips the suffix from every regular file name.
func TestNameEndingInPipelineSuffix(t *testing.T) {
	for _, tc := range []struct {
		name string
		c    cfg
		file string
	}{
		{"gzip", cfg{compression: config.CompressionFormatGZipKey}, "/backup.gz"},
		{"zstandard", cfg{compression: config.CompressionFormatZStandardKey}, "/data.zst"},
		{"age", cfg{encryption: config.EncryptionFormatAgeKey}, "/secret.age"},
	} {
		t.Run(tc.name, func(t *testing.T) {
			e := newEnv(t, tc.c)
			content := []byte("hello world, this is content")

			f, err := e.fs.OpenFile(tc.file, os.O_RDWR|os.O_CREATE|os.O_TRUNC, 0o644)
			if err != nil {
				t.Fatalf("OpenFile(%q, O_RDWR|O_CREATE|O_TRUNC) under %s pipeline failed: %v (expected the file to be created)", tc.file, tc.name, err)
			}
			if _, err := f.Write(content); err != nil {
				t.Fatalf("Write: %v", err)
			}
			if err := f.Close(); err != nil {
				t.Fatalf("Close: %v", err)
			}

			info, err := e.fs.Stat(tc.file)
			if err != nil {
				t.Fatalf("Stat(%q) after write+close: %v", tc.file, err)
			}
			if info.Size() != int64(len(content)) {
				t.Fatalf("Stat(%q).Size() = %d, want %d", tc.file, info.Size(), len(content))
			}

			r, err := e.fs.Open(tc.file)
			if err != nil {
				t.Fatalf("Open: %v", err)
			}
			got, err := io.ReadAll(r)
			if err != nil {
				t.Fatalf("ReadAll: %v", err)
			}
			_ = r.Close()
			if !bytes.Equal(got, content) {
				t.Fatalf("read back %q, want %q", got, content)
			}
		})
	}
}

// Worse: the mis-indexed empty "create" record of "/report.gz" lands on the entry "/report", whose content is lost.
func TestCreatingSuffixedNameDestroysSibling(t *testing.T) {
	e := newEnv(t, cfg{compression: config.CompressionFormatGZipKey})
	content := bytes.Repeat([]byte("important "), 100)

	roundTrip(t, e, "/report", content)

	f, err := e.fs.OpenFile("/report.gz", os.O_RDWR|os.O_CREATE, 0o644)
	if err == nil {
		_ = f.Close()
	} else {
		t.Logf("OpenFile(/report.gz, O_CREATE) = %v", err)
	}

	info, err := e.fs.Stat("/report")
	if err != nil {
		t.Fatalf("Stat(/report): %v", err)
	}
	if info.Size() != int64(len(content)) {
		t.Errorf("after trying to create /report.gz, Stat(/report).Size() = %d, want %d (the other file was never written to)", info.Size(), len(content))
	}
	r, err := e.fs.Open("/report")
	if err != nil {
		t.Fatal(err)
	}
	got, _ := io.ReadAll(r)
	_ = r.Close()
	if !bytes.Equal(got, content) {
		t.Errorf("after trying to create /report.gz, /report reads %d bytes, want the %d bytes written to it", len(got), len(content))
	}
}
