package huntc

import (
	"bytes"
	"fmt"
	"io"
	"math/rand"
	"os"
	"path/filepath"
	"strings"
	"testing"

	"github.com/pojntfx/stfs/pkg/config"
)

type fileLike interface {
	io.Reader
	io.ReaderAt
	io.Seeker
	io.Writer
	io.WriterAt
	WriteString(string) (int, error)
	Truncate(int64) error
	Sync() error
	Stat() (os.FileInfo, error)
	Close() error
}

func classify(err error) string {
	if err == nil {
		return "nil"
	}
	if err == io.EOF {
		return "EOF"
	}
	return "err"
}

func runFuzz(t *testing.T, c cfg, seeds int, opsPer int) {
	sizes := []int{0, 1, 513, 3000, 10240, 25000}
	flagSets := []int{
		os.O_RDONLY,
		os.O_RDWR,
		os.O_WRONLY,
		os.O_RDWR | os.O_APPEND,
		os.O_WRONLY | os.O_APPEND,
		os.O_RDWR | os.O_TRUNC,
		os.O_WRONLY | os.O_TRUNC,
		os.O_RDWR | os.O_CREATE,
		os.O_RDWR | os.O_CREATE | os.O_TRUNC,
		os.O_RDWR | os.O_APPEND | os.O_TRUNC,
	}

	for seed := 0; seed < seeds; seed++ {
		rng := rand.New(rand.NewSource(int64(seed)))
		size := sizes[rng.Intn(len(sizes))]
		flags := flagSets[rng.Intn(len(flagSets))]

		e := newEnv(t, c)
		refPath := filepath.Join(e.dir, "ref")

		initial := make([]byte, size)
		rng.Read(initial)

		if flags&os.O_CREATE == 0 || rng.Intn(2) == 0 {
			f, err := e.fs.OpenFile("/f", os.O_WRONLY|os.O_CREATE, 0o644)
			if err != nil {
				t.Fatal(err)
			}
			if _, err := f.Write(initial); err != nil {
				t.Fatal(err)
			}
			if err := f.Close(); err != nil {
				t.Fatal(err)
			}
			if err := os.WriteFile(refPath, initial, 0o644); err != nil {
				t.Fatal(err)
			}
		}

		var sut, ref fileLike
		s, err := e.fs.OpenFile("/f", flags, 0o644)
		if err != nil {
			t.Fatalf("seed %d: open: %v", seed, err)
		}
		sut = s.(fileLike)
		r, err := os.OpenFile(refPath, flags, 0o644)
		if err != nil {
			t.Fatal(err)
		}
		ref = r

		hist := []string{fmt.Sprintf("seed=%d size=%d flags=%#x", seed, size, flags)}
		fail := func(format string, args ...interface{}) {
			t.Errorf("%s\nhistory:\n  %s", fmt.Sprintf(format, args...), strings.Join(hist, "\n  "))
		}

		randOff := func() int64 {
			switch rng.Intn(6) {
			case 0:
				return -int64(rng.Intn(10)) - 1
			case 1:
				return 0
			case 2:
				return int64(size)
			case 3:
				return int64(size) + int64(rng.Intn(2000))
			default:
				return int64(rng.Intn(size + 100))
			}
		}
		randLen := func() int {
			switch rng.Intn(5) {
			case 0:
				return 0
			case 1:
				return 1
			case 2:
				return rng.Intn(40000)
			default:
				return rng.Intn(700)
			}
		}
		if os.Getenv("HUNT_NOZERO") != "" {
			inner := randLen
			randLen = func() int { return inner() + 1 }
		}

		ok := true
		for i := 0; i < opsPer && ok; i++ {
			switch op := rng.Intn(10); op {
			case 0, 1:
				n := randLen()
				b1, b2 := make([]byte, n), make([]byte, n)
				hist = append(hist, fmt.Sprintf("Read(%d)", n))
				n1, e1 := io.ReadFull(sutReader{sut}, b1)
				n2, e2 := io.ReadFull(sutReader{ref}, b2)
				if n1 != n2 || !bytes.Equal(b1[:n1], b2[:n2]) || (e1 == nil) != (e2 == nil) {
					fail("Read: sut n=%d err=%v, ref n=%d err=%v", n1, e1, n2, e2)
					ok = false
				}
			case 2:
				n := randLen()
				off := randOff()
				b1, b2 := make([]byte, n), make([]byte, n)
				hist = append(hist, fmt.Sprintf("ReadAt(%d, %d)", n, off))
				n1, e1 := sut.ReadAt(b1, off)
				n2, e2 := ref.ReadAt(b2, off)
				if n1 != n2 || !bytes.Equal(b1[:n1], b2[:n2]) || classify(e1) != classify(e2) {
					fail("ReadAt: sut n=%d err=%v, ref n=%d err=%v", n1, e1, n2, e2)
					ok = false
				}
			case 3, 4:
				off := randOff()
				wh := rng.Intn(3)
				if wh == 2 {
					off -= int64(size)
				}
				hist = append(hist, fmt.Sprintf("Seek(%d, %d)", off, wh))
				p1, e1 := sut.Seek(off, wh)
				p2, e2 := ref.Seek(off, wh)
				if (e1 == nil) != (e2 == nil) || (e1 == nil && p1 != p2) {
					fail("Seek: sut pos=%d err=%v, ref pos=%d err=%v", p1, e1, p2, e2)
					ok = false
				}
			case 5:
				n := randLen()
				b := make([]byte, n)
				rng.Read(b)
				hist = append(hist, fmt.Sprintf("Write(%d)", n))
				n1, e1 := sut.Write(b)
				n2, e2 := ref.Write(b)
				if n1 != n2 || (e1 == nil) != (e2 == nil) {
					fail("Write: sut n=%d err=%v, ref n=%d err=%v", n1, e1, n2, e2)
					ok = false
				}
			case 6:
				if flags&os.O_APPEND != 0 {
					continue
				}
				n := randLen()
				off := randOff()
				b := make([]byte, n)
				rng.Read(b)
				hist = append(hist, fmt.Sprintf("WriteAt(%d, %d)", n, off))
				n1, e1 := sut.WriteAt(b, off)
				n2, e2 := ref.WriteAt(b, off)
				if n1 != n2 || (e1 == nil) != (e2 == nil) {
					fail("WriteAt: sut n=%d err=%v, ref n=%d err=%v", n1, e1, n2, e2)
					ok = false
				}
			case 7:
				n := rng.Intn(300)
				str := strings.Repeat("x", n)
				hist = append(hist, fmt.Sprintf("WriteString(%d)", n))
				n1, e1 := sut.WriteString(str)
				n2, e2 := ref.WriteString(str)
				if n1 != n2 || (e1 == nil) != (e2 == nil) {
					fail("WriteString: sut n=%d err=%v, ref n=%d err=%v", n1, e1, n2, e2)
					ok = false
				}
			case 8:
				off := randOff()
				hist = append(hist, fmt.Sprintf("Truncate(%d)", off))
				e1 := sut.Truncate(off)
				e2 := ref.Truncate(off)
				if (e1 == nil) != (e2 == nil) {
					fail("Truncate: sut err=%v, ref err=%v", e1, e2)
					ok = false
				}
			case 9:
				switch rng.Intn(3) {
				case 0:
					hist = append(hist, "Sync()")
					e1 := sut.Sync()
					if e1 != nil {
						fail("Sync: %v", e1)
						ok = false
					}
				default:
					hist = append(hist, "Seek(0,1) check")
					p1, e1 := sut.Seek(0, io.SeekCurrent)
					p2, e2 := ref.Seek(0, io.SeekCurrent)
					if (e1 == nil) != (e2 == nil) || p1 != p2 {
						fail("pos: sut pos=%d err=%v, ref pos=%d err=%v", p1, e1, p2, e2)
						ok = false
					}
				}
			}
		}

		hist = append(hist, "Close()")
		if err := sut.Close(); err != nil {
			fail("Close: %v", err)
		}
		_ = ref.Close()

		if ok {
			want, _ := os.ReadFile(refPath)
			f, err := e.fs.Open("/f")
			if err != nil {
				fail("reopen: %v", err)
				continue
			}
			got, err := io.ReadAll(f)
			_ = f.Close()
			if err != nil {
				fail("readall: %v", err)
			}
			if !bytes.Equal(got, want) {
				fail("final content differs: got len %d want len %d", len(got), len(want))
			}
			info, err := e.fs.Stat("/f")
			if err != nil || info.Size() != int64(len(want)) {
				fail("final Stat: %v size mismatch want %d", err, len(want))
			}
			if os.Getenv("HUNT_REOPEN") != "" {
				e2 := e.reopen(t)
				info, err := e2.fs.Stat("/f")
				if err != nil || info.Size() != int64(len(want)) {
					fail("rebuilt Stat: %v size mismatch want %d", err, len(want))
				} else {
					f, err := e2.fs.Open("/f")
					if err != nil {
						fail("rebuilt reopen: %v", err)
						continue
					}
					got, err := io.ReadAll(f)
					_ = f.Close()
					if err != nil || !bytes.Equal(got, want) {
						fail("rebuilt content differs: %v got len %d want len %d", err, len(got), len(want))
					}
				}
			}
		}
	}
}

type sutReader struct{ f fileLike }

func (s sutReader) Read(p []byte) (int, error) { return s.f.Read(p) }

func TestFuzzMemory(t *testing.T) {
	runFuzz(t, cfg{writeCache: config.WriteCacheTypeMemory}, 150, 25)
}

func TestFuzzFile(t *testing.T) {
	runFuzz(t, cfg{writeCache: config.WriteCacheTypeFile, recordSize: 3}, 150, 25)
}

func TestFuzzReopen(t *testing.T) {
	if os.Getenv("HUNT_REOPEN") == "" {
		t.Skip()
	}
	runFuzz(t, cfg{writeCache: config.WriteCacheTypeMemory, recordSize: 3}, 150, 30)
	runFuzz(t, cfg{writeCache: config.WriteCacheTypeFile, recordSize: 20, compression: config.CompressionFormatLZ4Key}, 150, 30)
}

func TestFuzzBig(t *testing.T) {
	if os.Getenv("HUNT_BIG") == "" {
		t.Skip()
	}
	runFuzz(t, cfg{writeCache: config.WriteCacheTypeMemory, recordSize: 1}, 600, 30)
	runFuzz(t, cfg{writeCache: config.WriteCacheTypeFile, recordSize: 7, compression: config.CompressionFormatGZipKey}, 300, 30)
	runFuzz(t, cfg{writeCache: config.WriteCacheTypeMemory, recordSize: 2, compression: config.CompressionFormatZStandardKey, signature: config.SignatureFormatMinisignKey}, 300, 30)
}
