package huntc

import (
	"bytes"
	"crypto/rand"
	"io"
	"testing"

	"github.com/pojntfx/stfs/pkg/compression"
	"github.com/pojntfx/stfs/pkg/config"
)

func TestCodecNonRegularProbe(t *testing.T) {
	for _, format := range config.KnownCompressionFormats {
		for _, rs := range []int{1, 2, 3, 7, 20, 64, 128, 256, 1024, 2048, 4096, 16384} {
			for _, size := range []int{0, 1, 513, 100000, 3000000} {
				buf := &bytes.Buffer{}
				w, err := compression.Compress(buf, format, config.CompressionLevelFastestKey, false, rs)
				if err != nil {
					if size == 0 {
						t.Logf("%s rs=%d: Compress: %v", format, rs, err)
					}
					continue
				}
				content := make([]byte, size)
				rand.Read(content[:size/2])
				if _, err := io.CopyBuffer(w, struct{ io.Reader }{bytes.NewReader(content)}, make([]byte, 512*rs)); err != nil {
					t.Errorf("%s rs=%d size=%d: write: %v", format, rs, size, err)
					continue
				}
				if err := w.Flush(); err != nil {
					t.Errorf("%s rs=%d size=%d: flush: %v", format, rs, size, err)
				}
				if err := w.Close(); err != nil {
					t.Errorf("%s rs=%d size=%d: close: %v", format, rs, size, err)
				}
				r, err := compression.Decompress(buf, format)
				if err != nil {
					t.Errorf("%s rs=%d size=%d: Decompress: %v", format, rs, size, err)
					continue
				}
				got, err := io.ReadAll(r)
				if err != nil {
					t.Errorf("%s rs=%d size=%d: read: %v", format, rs, size, err)
				}
				if !bytes.Equal(got, content) {
					t.Errorf("%s rs=%d size=%d: mismatch got %d", format, rs, size, len(got))
				}
			}
		}
	}
}
