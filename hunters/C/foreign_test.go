package huntc

import (
	"archive/tar"
	"bytes"
	"io"
	"os"
	"testing"
	"time"
)

// A tar archive written by a plain tar writer (GNU tar, archive/tar) is a valid tape for STFS.
func foreignTar(t *testing.T, format tar.Format, content []byte) func(path string) {
	return func(path string) {
		f, err := os.Create(path)
		if err != nil {
			t.Fatal(err)
		}
		tw := tar.NewWriter(f)
		now := time.Unix(1700000000, 0)
		if err := tw.WriteHeader(&tar.Header{Typeflag: tar.TypeDir, Name: "/", Mode: 0o755, ModTime: now, Format: format}); err != nil {
			t.Fatal(err)
		}
		if err := tw.WriteHeader(&tar.Header{Typeflag: tar.TypeReg, Name: "/a.txt", Mode: 0o644, Size: int64(len(content)), ModTime: now, Format: format}); err != nil {
			t.Fatal(err)
		}
		if _, err := tw.Write(content); err != nil {
			t.Fatal(err)
		}
		if err := tw.Flush(); err != nil {
			t.Fatal(err)
		}
		// No trailer, like an STFS tape
		if err := f.Close(); err != nil {
			t.Fatal(err)
		}
	}
}

func TestForeignArchiveMetadataUpdateKeepsSize(t *testing.T) {
	content := bytes.Repeat([]byte("0123456789"), 70)
	e := newEnv(t, cfg{prepareDrive: foreignTar(t, tar.FormatPAX, content)})

	readBack(t, e, "/a.txt", content)

	if err := e.fs.Chmod("/a.txt", 0o600); err != nil {
		t.Fatalf("Chmod: %v", err)
	}

	info, err := e.fs.Stat("/a.txt")
	if err != nil {
		t.Fatal(err)
	}
	if info.Size() != int64(len(content)) {
		t.Errorf("after Chmod, Stat(/a.txt).Size() = %d, want %d", info.Size(), len(content))
	}

	// Appending through a handle must keep the old content
	f, err := e.fs.OpenFile("/a.txt", os.O_RDWR|os.O_APPEND, 0)
	if err != nil {
		t.Fatal(err)
	}
	if _, err := f.Write([]byte("tail")); err != nil {
		t.Fatal(err)
	}
	if err := f.Close(); err != nil {
		t.Fatal(err)
	}
	r, err := e.fs.Open("/a.txt")
	if err != nil {
		t.Fatal(err)
	}
	got, _ := io.ReadAll(r)
	_ = r.Close()
	want := append(append([]byte{}, content...), []byte("tail")...)
	if !bytes.Equal(got, want) {
		t.Errorf("after Chmod and appending 4 bytes, the file reads %d bytes, want %d (old content + tail)", len(got), len(want))
	}
}
