package huntc

import (
	"io"
	"os"
	"testing"
)

// An empty Write/WriteString on an O_APPEND handle must not have any effect; here it moves the cursor to the end of the file.
func TestEmptyWriteOnAppendHandleMovesCursor(t *testing.T) {
	for _, wc := range []string{"memory", "file"} {
		t.Run(wc, func(t *testing.T) {
			e := newEnv(t, cfg{writeCache: wc})
			roundTrip(t, e, "/f", []byte("0123456789"))

			f, err := e.fs.OpenFile("/f", os.O_RDWR|os.O_APPEND, 0)
			if err != nil {
				t.Fatal(err)
			}
			defer f.Close()

			if _, err := f.Seek(2, io.SeekStart); err != nil {
				t.Fatal(err)
			}
			if n, err := f.Write([]byte{}); n != 0 || err != nil {
				t.Fatalf("Write(empty) = %d, %v", n, err)
			}
			pos, err := f.Seek(0, io.SeekCurrent)
			if err != nil {
				t.Fatal(err)
			}
			if pos != 2 {
				t.Errorf("after Seek(2, start) and an empty Write on an O_RDWR|O_APPEND handle the cursor is at %d, want 2", pos)
			}
			buf := make([]byte, 3)
			n, err := f.Read(buf)
			if string(buf[:n]) != "234" {
				t.Errorf("Read(3) after the empty write returned %q, %v; want \"234\" (os.File and an in-memory file leave the cursor alone)", buf[:n], err)
			}
		})
	}
}
