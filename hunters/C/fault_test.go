package huntc

import (
	"bytes"
	"io"
	"os"
	"testing"

	"github.com/pojntfx/stfs/pkg/config"
)

// When loading the existing content into the write cache fails (here: the content on the tape was damaged and its
// signature no longer verifies), the failing call reports the error, but the handle stays in write mode with the
// half-loaded/unverified cache: the next write succeeds and Close stores (and freshly signs) the damaged content.
func TestFailedLoadIntoWriteCacheIsForgotten(t *testing.T) {
	e := newEnv(t, cfg{signature: config.SignatureFormatMinisignKey})
	content := bytes.Repeat([]byte("A"), 3000)
	roundTrip(t, e, "/f", content)

	// Damage one content byte on the tape
	tape, err := os.ReadFile(e.drive)
	if err != nil {
		t.Fatal(err)
	}
	idx := bytes.LastIndex(tape, bytes.Repeat([]byte("A"), 3000))
	if idx < 0 {
		t.Fatal("content not found on tape")
	}
	tape[idx+100] = 'B'
	if err := os.WriteFile(e.drive, tape, 0o644); err != nil {
		t.Fatal(err)
	}

	// Reading notices the damage
	r, err := e.fs.Open("/f")
	if err != nil {
		t.Fatal(err)
	}
	if _, err := io.ReadAll(r); err == nil {
		t.Fatal("reading the damaged file reported no error")
	}
	_ = r.Close()

	f, err := e.fs.OpenFile("/f", os.O_RDWR|os.O_APPEND, 0)
	if err != nil {
		t.Fatal(err)
	}
	if _, err := f.Write([]byte("tail")); err == nil {
		t.Fatal("first Write on the damaged file reported no error")
	} else {
		t.Logf("first Write: %v", err)
	}
	_, err2 := f.Write([]byte("tail"))
	errClose := f.Close()
	if err2 == nil && errClose == nil {
		r, err := e.fs.Open("/f")
		if err != nil {
			t.Fatal(err)
		}
		got, rerr := io.ReadAll(r)
		_ = r.Close()
		t.Errorf("after the first Write failed with a signature error, the same Write succeeded and Close stored the damaged content: the file now reads %d bytes without error (%v), byte 100 = %q; want the error to persist and the stored file to be left alone", len(got), rerr, got[100])
	}
}
