package hunte

import (
	"fmt"
	"os"
	"path/filepath"
	"sort"
	"testing"

)

func walk(in *inst) []string {
	out := []string{}
	var rec func(p string)
	rec = func(p string) {
		info, err := in.fs.Stat(p)
		if err != nil {
			out = append(out, fmt.Sprintf("%s ERR %v", p, err))
			return
		}
		s := fmt.Sprintf("%s %v %d", p, info.Mode(), info.Size())
		if !info.IsDir() {
			b, e := readAll(in, p)
			s += fmt.Sprintf(" %q %v", b, e)
			out = append(out, s)
			return
		}
		out = append(out, s)
		f, err := in.fs.Open(p)
		if err != nil {
			out = append(out, fmt.Sprintf("%s OPENERR %v", p, err))
			return
		}
		names, err := f.Readdirnames(-1)
		f.Close()
		if err != nil {
			out = append(out, fmt.Sprintf("%s RDERR %v", p, err))
		}
		sort.Strings(names)
		for _, n := range names {
			rec(filepath.Join(p, n))
		}
	}
	rec("/")
	return out
}

func reopen(t *testing.T, in *inst, withIndex bool) *inst {
	dir := t.TempDir()
	meta := filepath.Join(dir, "meta.sqlite")
	if withIndex {
		b, _ := os.ReadFile(filepath.Join(in.dir, "meta.sqlite"))
		os.WriteFile(meta, b, 0600)
	}
	drive := filepath.Join(dir, "drive.tar")
	os.WriteFile(drive, tapeBytes(t, in), 0600)
	n, err := open(t, drive, meta, in.comp, in.rs, "/")
	if err != nil {
		t.Fatalf("reopen: %v", err)
	}
	return n
}

