package hunte

import (
	"bytes"
	"fmt"
	"testing"
	"time"
)

// Finding 1: with a compression format configured, a file whose own name ends in that format's suffix
// (".gz" for gzip, ".zst" for zstandard, ...) cannot be created: the create record carries the name
// unchanged (no suffix is added to an empty file), but indexing strips "the suffix" from every regular
// file, so the entry is indexed under another name, the call fails, and the tape has grown nevertheless.
func TestF1_CompressionSuffixInOwnName(t *testing.T) {
	in := fresh(t, "gzip", 20)
	before := tapeBytes(t, in)
	f, err := in.fs.Create("/backup.gz")
	if err == nil {
		f.Close()
	}
	after := tapeBytes(t, in)
	live := dump(t, in.meta)
	if err != nil && len(after) != len(before) {
		t.Errorf("Create(\"/backup.gz\") failed with %q, yet it appended %d bytes to the tape; index now holds %v (expected: either the file /backup.gz exists, or nothing was appended)", err, len(after)-len(before), live)
	}
	if _, serr := in.fs.Stat("/backup.gz"); serr != nil {
		t.Errorf("Stat(\"/backup.gz\") after Create: %v; index holds %v", serr, live)
	}
	if _, serr := in.fs.Stat("/backup"); serr == nil {
		t.Errorf("an entry /backup that nobody created exists after Create(\"/backup.gz\")")
	}
}

// Finding 1b: same cause, silent variant: renaming a file to a name that ends in the suffix reports success, appends a
// move record, and leaves the file under its old name (in the live index and after a rebuild).
func TestF1b_RenameToSuffixName(t *testing.T) {
	in := fresh(t, "gzip", 20)
	if err := writeFile(in, "/notes", []byte("hello")); err != nil {
		t.Fatal(err)
	}
	if err := in.fs.Rename("/notes", "/notes.gz"); err != nil {
		t.Fatalf("rename: %v", err)
	}
	if _, err := in.fs.Stat("/notes.gz"); err != nil {
		t.Errorf("Rename(\"/notes\", \"/notes.gz\") returned nil, but Stat(\"/notes.gz\") = %v; index: %v", err, dump(t, in.meta))
	}
	if _, err := in.fs.Stat("/notes"); err == nil {
		t.Errorf("Rename(\"/notes\", \"/notes.gz\") returned nil, but /notes still exists")
	}
}

// Finding 2: with header encryption the real header travels as JSON inside a PAX record. JSON replaces every byte
// that is not valid UTF-8 by U+FFFD, so the name on the tape differs from the name in the live index: two files
// whose names differ only in such bytes are one entry after a rebuild, and the content of one of them is gone.
func TestF2_EncryptedHeaderLosesNonUTF8Names(t *testing.T) {
	useAge(t)
	in := fresh(t, "", 20)
	if err := writeFile(in, "/caf\xe9", []byte("latin-1 e acute")); err != nil {
		t.Fatal(err)
	}
	if err := writeFile(in, "/caf\xe8", []byte("latin-1 e grave")); err != nil {
		t.Fatal(err)
	}
	for n, want := range map[string]string{"/caf\xe9": "latin-1 e acute", "/caf\xe8": "latin-1 e grave"} {
		if b, err := readAll(in, n); err != nil || string(b) != want {
			t.Fatalf("live instance: %q = %q, %v", n, b, err)
		}
	}
	live := dump(t, in.meta)
	rb, err := rebuild(t, in, tapeBytes(t, in))
	if err != nil {
		t.Fatalf("rebuild: %v", err)
	}
	if fmt.Sprint(live) != fmt.Sprint(rb) {
		t.Errorf("index rebuilt from the tape differs from the live index:\nlive    %q\nrebuilt %q", live, rb)
	}
	re := reopen(t, in, false) // same tape, no index
	for n, want := range map[string]string{"/caf\xe9": "latin-1 e acute", "/caf\xe8": "latin-1 e grave"} {
		if b, err := readAll(re, n); err != nil || string(b) != want {
			t.Errorf("after opening the same tape without an index: %q = %q, %v (want %q)", n, b, err, want)
		}
	}
}

// Finding 3: a time after the year 9999 is accepted by Chtimes, written to the tape and to the index, but the index
// can't read it back: from then on every listing (and Stat of that entry) fails, also after a rebuild from the tape.
func TestF3_ChtimesBeyondYear9999PoisonsIndex(t *testing.T) {
	in := fresh(t, "", 20)
	if err := writeFile(in, "/a", []byte("hello")); err != nil {
		t.Fatal(err)
	}
	if err := writeFile(in, "/b", []byte("world")); err != nil {
		t.Fatal(err)
	}
	far := time.Date(10000, 1, 1, 0, 0, 0, 0, time.UTC)
	if err := in.fs.Chtimes("/a", far, far); err != nil {
		t.Skipf("Chtimes refused the time: %v", err) // refusing would be fine
	}
	re := reopen(t, in, false) // from-scratch rebuild of that tape succeeds ...
	for _, x := range []*inst{in, re} {
		d, err := x.fs.Open("/")
		if err != nil {
			t.Fatal(err)
		}
		names, err := d.Readdirnames(-1)
		d.Close()
		if err != nil {
			t.Errorf("after a successful Chtimes(\"/a\", year 10000) the root can't be listed any more (also /b is unreachable this way): %v (names %v)", err, names)
		}
		if _, err := x.fs.Stat("/a"); err != nil {
			t.Errorf("Stat(\"/a\") after a successful Chtimes: %v", err)
		}
	}
	_ = bytes.Equal
}
