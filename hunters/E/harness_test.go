package hunte

import (
	"archive/tar"
	"bytes"
	"context"
	"fmt"
	"io"
	"os"
	"path/filepath"
	"sort"
	"testing"

	"github.com/pojntfx/stfs/examples"
	"github.com/pojntfx/stfs/pkg/cache"
	"github.com/pojntfx/stfs/pkg/config"
	sfs "github.com/pojntfx/stfs/pkg/fs"
	"github.com/pojntfx/stfs/pkg/encryption"
	"github.com/pojntfx/stfs/pkg/keys"
	"github.com/pojntfx/stfs/pkg/mtio"
	"github.com/pojntfx/stfs/pkg/utility"
	"github.com/pojntfx/stfs/pkg/operations"
	"github.com/pojntfx/stfs/pkg/persisters"
	"github.com/pojntfx/stfs/pkg/recovery"
	"github.com/pojntfx/stfs/pkg/tape"
)

// encryption settings used by open and rebuild (empty: none)
var (
	encFormat    string
	encRecipient interface{}
	encIdentity  interface{}
)

func useAge(t testing.TB) {
	priv, pub, err := utility.Keygen(config.PipeConfig{Encryption: config.EncryptionFormatAgeKey}, config.PasswordConfig{Password: ""})
	if err != nil {
		t.Fatal(err)
	}
	encRecipient, err = keys.ParseRecipient(config.EncryptionFormatAgeKey, pub)
	if err != nil {
		t.Fatal(err)
	}
	encIdentity, err = keys.ParseIdentity(config.EncryptionFormatAgeKey, priv, "")
	if err != nil {
		t.Fatal(err)
	}
	encFormat = config.EncryptionFormatAgeKey
	t.Cleanup(func() { encFormat, encRecipient, encIdentity = "", nil, nil })
}

type inst struct {
	fs    *sfs.STFS
	meta  *persisters.MetadataPersister
	ops   *operations.Operations
	drive string
	dir   string
	comp  string
	rs    int
}

// open constructs a file system over drive with the given metadata file and calls Initialize(root)
func open(t testing.TB, drive, metadata, comp string, rs int, root string) (*inst, error) {
	mt := mtio.MagneticTapeIO{}
	tm := tape.NewTapeManager(drive, mt, rs, false)
	mp := persisters.NewMetadataPersister(metadata)
	if err := mp.Open(); err != nil {
		return nil, err
	}
	lg := &examples.Logger{Verbose: false}
	mc := config.MetadataConfig{Metadata: mp}
	pc := config.PipeConfig{Compression: comp, Encryption: encFormat, Signature: "", RecordSize: rs}
	bc := config.BackendConfig{GetWriter: tm.GetWriter, CloseWriter: tm.Close, GetReader: tm.GetReader, CloseReader: tm.Close, MagneticTapeIO: mt}
	ro := operations.NewOperations(bc, mc, pc, config.CryptoConfig{Identity: encIdentity}, func(*config.HeaderEvent) {})
	wo := operations.NewOperations(bc, mc, pc, config.CryptoConfig{Recipient: encRecipient}, func(*config.HeaderEvent) {})
	dir := filepath.Dir(drive)
	f := sfs.NewSTFS(ro, wo, mc, config.CompressionLevelFastestKey, func() (cache.WriteCache, func() error, error) {
		return cache.NewCacheWrite(filepath.Join(dir, "wc"), config.WriteCacheTypeMemory)
	}, false, false, func(*config.Header) {}, lg)
	in := &inst{fs: f, meta: mp, ops: ro, drive: drive, dir: dir, comp: comp, rs: rs}
	if _, err := f.Initialize(root, os.ModePerm); err != nil {
		return in, err
	}
	return in, nil
}

func fresh(t testing.TB, comp string, rs int) *inst {
	dir := t.TempDir()
	in, err := open(t, filepath.Join(dir, "drive.tar"), filepath.Join(dir, "meta.sqlite"), comp, rs, "/")
	if err != nil {
		t.Fatalf("open: %v", err)
	}
	return in
}

func tapeBytes(t testing.TB, in *inst) []byte {
	b, err := os.ReadFile(in.drive)
	if err != nil {
		t.Fatal(err)
	}
	return b
}

// rebuild replays the tape into a brand-new index and returns "name|type|size|mode|record|block" lines of the live entries
func rebuild(t testing.TB, in *inst, tapeContent []byte) ([]string, error) {
	dir := t.TempDir()
	drive := filepath.Join(dir, "drive.tar")
	if err := os.WriteFile(drive, tapeContent, 0600); err != nil {
		t.Fatal(err)
	}
	mt := mtio.MagneticTapeIO{}
	tm := tape.NewTapeManager(drive, mt, in.rs, false)
	mp := persisters.NewMetadataPersister(filepath.Join(dir, "meta.sqlite"))
	if err := mp.Open(); err != nil {
		t.Fatal(err)
	}
	r, err := tm.GetReader()
	if err != nil {
		t.Fatal(err)
	}
	defer tm.Close()
	err = recovery.Index(r, mt, config.MetadataConfig{Metadata: mp}, config.PipeConfig{Compression: in.comp, Encryption: encFormat, RecordSize: in.rs}, config.CryptoConfig{Identity: encIdentity}, 0, 0, true, false, 0,
		func(h *tar.Header, _ int) error { return encryption.DecryptHeader(h, encFormat, encIdentity) }, func(*tar.Header, bool) error { return nil }, func(*config.Header) {})
	return dump(t, mp), err
}

func norm(n string) string {
	return filepath.Clean("/" + n)
}

func dump(t testing.TB, mp *persisters.MetadataPersister) []string {
	hs, err := mp.GetHeaders(context.Background())
	if err != nil {
		t.Fatal(err)
	}
	out := []string{}
	for _, h := range hs {
		out = append(out, fmt.Sprintf("%s|%c|%d|%o|%d|%d|%s", norm(h.Name), rune(h.Typeflag), h.Size, h.Mode, h.Record, h.Block, h.Linkname))
	}
	sort.Strings(out)
	return out
}

func readAll(in *inst, name string) ([]byte, error) {
	f, err := in.fs.Open(name)
	if err != nil {
		return nil, err
	}
	defer f.Close()
	return io.ReadAll(f)
}

func writeFile(in *inst, name string, data []byte) error {
	f, err := in.fs.OpenFile(name, os.O_CREATE|os.O_WRONLY|os.O_TRUNC, 0644)
	if err != nil {
		return err
	}
	if _, err := f.Write(data); err != nil {
		f.Close()
		return err
	}
	return f.Close()
}

// stdTar iterates the tape with a standard tar reader that skips zero blocks between archives
func stdTar(b []byte) (n int, err error) {
	if len(b)%512 != 0 {
		return 0, fmt.Errorf("tape length %d not multiple of 512", len(b))
	}
	off := 0
	for off < len(b) {
		if bytes.Equal(b[off:off+512], make([]byte, 512)) {
			off += 512
			continue
		}
		cr := &countR{r: bytes.NewReader(b[off:])}
		tr := tar.NewReader(cr)
		for {
			_, e := tr.Next()
			if e == io.EOF {
				break
			}
			if e != nil {
				return n, fmt.Errorf("at %d: %v", off, e)
			}
			if _, e := io.Copy(io.Discard, tr); e != nil {
				return n, e
			}
			n++
		}
		off += cr.n
	}
	return n, nil
}

type countR struct {
	r io.Reader
	n int
}

func (c *countR) Read(p []byte) (int, error) { n, e := c.r.Read(p); c.n += n; return n, e }
