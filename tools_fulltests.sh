#!/bin/bash
# tools_fulltests.sh <repo dir> <out dir>: run every top-level test function of pkg/fs in its own process
# (the suite leaks descriptors, so one process for everything hits the 20000 fd limit of this sandbox).
export GOFLAGS=-mod=mod GOPROXY=off GOSUMDB=off GOTOOLCHAIN=local
REPO=$1; OUT=$2; mkdir -p "$OUT"; export TMPDIR="$OUT/tmp"; mkdir -p "$TMPDIR"
cd "$REPO" || exit 2
go test -mod=mod -vet=off -c -o "$OUT/fs.test" ./pkg/fs || exit 2
for t in $(grep -h "^func Test" pkg/fs/*_test.go | sed 's/func \(Test[A-Za-z_0-9]*\).*/\1/' | grep -v TestMain); do
  (cd pkg/fs && timeout 1500 "$OUT/fs.test" -test.run "^${t}\$" -test.v -test.count=1 -test.timeout 25m 2>&1 | grep -a -E "^\s*--- (PASS|FAIL|SKIP)" | sed 's/ (.*//' | sort > "$OUT/$t.res")
  echo "$t pass=$(grep -a -c PASS "$OUT/$t.res") fail=$(grep -a -c FAIL "$OUT/$t.res")"
  rm -rf "$TMPDIR"/stfs-test-* 2>/dev/null
done
