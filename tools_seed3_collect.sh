#!/bin/bash
# tools_seed3_collect.sh <Cxx>...: copy a round-3 sub-agent's deliverables into seeded/r3-<Cxx>/ and try its own quick check
# on a scratch checkout (VERIF_SRC), never touching /repo. Prints: r3-<Cxx> exit=<n> viol=<n> + classes.
export GOFLAGS=-mod=mod GOPROXY=off GOSUMDB=off GOTOOLCHAIN=local
cd /verif
for id in "$@"; do
  S=/tmp/seed3-$id-demo; D=seeded/r3-$id
  mkdir -p $D
  for f in patch.diff demo_test.go meta.json; do [ -f $S/$f ] && cp $S/$f $D/; done
  [ -f $D/patch.diff ] || { echo "r3-$id: no patch"; continue; }
  src=$(./tools_seed_src.sh r3-$id) || { echo "r3-$id: patch does not apply"; continue; }
  out=/dev/shm/seed3_${id}.out
  VERIF_SRC=$src timeout 3000 ./run.sh $id ${TIER:-quick} > $out 2>&1
  echo "r3-$id ${TIER:-quick} exit=$? viol=$(grep -a -c '^VIOLATION' $out) known=$(grep -a -c '^KNOWN-FINDING' $out)"
  grep -a -E "^  class:" $out | head -5
  git -C /repo worktree remove --force $src >/dev/null 2>&1; rm -rf $src
done
