#!/usr/bin/env python3
"""Compare a `go test -json` stream with the pinned baseline: every stable_pass name must have Action==pass."""
import json, sys
base = json.load(open('/root/.vp/BASELINE.json'))
want = set(base['stable_pass'])
res = {}
for line in open(sys.argv[1], errors='replace'):
    line = line.strip()
    if not line.startswith('{'):
        continue
    try:
        ev = json.loads(line)
    except Exception:
        continue
    if ev.get('Action') in ('pass', 'fail', 'skip') and ev.get('Test'):
        res[ev['Package'] + '::' + ev['Test']] = ev['Action']
missing = [n for n in want if res.get(n) != 'pass']
print(f"baseline names: {len(want)}; pass: {len(want) - len(missing)}; not pass: {len(missing)}")
for n in missing[:20]:
    print("  ", n, res.get(n))
print("total passes in this run:", sum(1 for v in res.values() if v == 'pass'), "fails:", sum(1 for v in res.values() if v == 'fail'))
sys.exit(1 if missing else 0)
