// Package model is the boring reference hierarchical file system (DESIGN.md Appendix C).
package model

import (
	"fmt"
	"path"
	"sort"
	"strings"
)

type Node struct {
	Dir   bool
	Data  []byte
	Perm  uint32
	UID   int
	GID   int
	Mtime *int64 // nil = unspecified by the reference (implementation free to choose)
	Atime *int64
	// Gen is a creation ordinal, used by oracles that track "which record carries the content" (C04).
	ContentGen int
}

type FS struct {
	N   map[string]*Node
	UID int
	GID int
	gen int
}

func New(uid, gid int, rootPerm uint32) *FS {
	f := &FS{N: map[string]*Node{}, UID: uid, GID: gid}
	f.N["/"] = &Node{Dir: true, Perm: rootPerm, UID: uid, GID: gid}
	return f
}

func (f *FS) Clone() *FS {
	c := &FS{N: map[string]*Node{}, UID: f.UID, GID: f.GID, gen: f.gen}
	for k, v := range f.N {
		n := *v
		n.Data = append([]byte(nil), v.Data...)
		if v.Mtime != nil {
			m := *v.Mtime
			n.Mtime = &m
		}
		if v.Atime != nil {
			a := *v.Atime
			n.Atime = &a
		}
		c.N[k] = &n
	}
	return c
}

func Clean(p string) string {
	p = path.Clean("/" + p)
	return p
}

func (f *FS) Paths() []string {
	out := make([]string, 0, len(f.N))
	for k := range f.N {
		out = append(out, k)
	}
	sort.Strings(out)
	return out
}

func (f *FS) children(p string) []string {
	var out []string
	pre := p
	if pre != "/" {
		pre += "/"
	}
	for k := range f.N {
		if k != p && strings.HasPrefix(k, pre) {
			out = append(out, k)
		}
	}
	sort.Strings(out)
	return out
}

func (f *FS) DirectChildren(p string) []string {
	var out []string
	for _, c := range f.children(p) {
		if path.Dir(c) == p {
			out = append(out, c)
		}
	}
	return out
}

func (f *FS) parentCheck(p string) string {
	par := path.Dir(p)
	n, ok := f.N[par]
	if !ok {
		return "parent-missing"
	}
	if !n.Dir {
		return "parent-not-dir"
	}
	return ""
}

// Each operation returns "" on success or the reason of the failure; a failed operation changes nothing.

func (f *FS) Mkdir(p string, perm uint32) string {
	p = Clean(p)
	if p == "/" {
		return "exists"
	}
	if r := f.parentCheck(p); r != "" {
		return r
	}
	if _, ok := f.N[p]; ok {
		return "exists"
	}
	f.N[p] = &Node{Dir: true, Perm: perm, UID: f.UID, GID: f.GID}
	return ""
}

func (f *FS) MkdirAll(p string, perm uint32) string {
	p = Clean(p)
	if p == "/" {
		return ""
	}
	parts := strings.Split(strings.TrimPrefix(p, "/"), "/")
	cur := ""
	// check first (a failed call changes nothing)
	for i, part := range parts {
		cur += "/" + part
		if n, ok := f.N[cur]; ok && !n.Dir {
			if i == len(parts)-1 {
				return "is-file"
			}
			return "through-file"
		}
	}
	cur = ""
	for _, part := range parts {
		cur += "/" + part
		if _, ok := f.N[cur]; !ok {
			f.N[cur] = &Node{Dir: true, Perm: perm, UID: f.UID, GID: f.GID}
		}
	}
	return ""
}

const (
	ORdonly = 0
	OWronly = 1
	ORdwr   = 2
	OAppend = 0x400
	OCreate = 0x40
	OExcl   = 0x80
	OTrunc  = 0x200
)

// OpenCheck decides whether OpenFile(p, flags, perm) succeeds, and applies its immediate effects
// (creation, truncation at open).
func (f *FS) OpenCheck(p string, flags int, perm uint32) string {
	p = Clean(p)
	n, ok := f.N[p]
	acc := flags & 3
	if !ok {
		if flags&OCreate == 0 {
			return "not-exist"
		}
		if r := f.parentCheck(p); r != "" {
			return r
		}
		f.gen++
		f.N[p] = &Node{Perm: perm, UID: f.UID, GID: f.GID, ContentGen: f.gen}
		return ""
	}
	if flags&OCreate != 0 && flags&OExcl != 0 {
		return "exists"
	}
	if n.Dir && (acc != ORdonly || flags&OTrunc != 0) {
		return "is-dir"
	}
	if flags&OTrunc != 0 && acc != ORdonly && !n.Dir {
		if len(n.Data) != 0 {
			f.gen++
			n.ContentGen = f.gen
		}
		n.Data = nil
		n.Mtime, n.Atime = nil, nil
	}
	return ""
}

// Put = OpenFile(p, O_RDWR|O_CREATE|O_TRUNC, perm) + Write(data) + Close.
func (f *FS) Put(p string, data []byte, perm uint32) string {
	p = Clean(p)
	if p == "/" {
		return "is-dir"
	}
	if r := f.OpenCheck(p, ORdwr|OCreate|OTrunc, perm); r != "" {
		return r
	}
	f.SetData(p, data)
	return ""
}

func (f *FS) SetData(p string, data []byte) {
	n := f.N[Clean(p)]
	if n == nil {
		return
	}
	n.Data = append([]byte(nil), data...)
	n.Mtime, n.Atime = nil, nil
	f.gen++
	n.ContentGen = f.gen
}

func (f *FS) Remove(p string) string {
	p = Clean(p)
	if p == "/" {
		return "root"
	}
	n, ok := f.N[p]
	if !ok {
		return "not-exist"
	}
	if n.Dir && len(f.children(p)) > 0 {
		return "not-empty"
	}
	delete(f.N, p)
	return ""
}

func (f *FS) RemoveAll(p string) string {
	p = Clean(p)
	if p == "/" {
		return "root"
	}
	if _, ok := f.N[p]; !ok {
		return ""
	}
	for _, c := range f.children(p) {
		delete(f.N, c)
	}
	delete(f.N, p)
	return ""
}

func (f *FS) Rename(o, n string) string {
	o, n = Clean(o), Clean(n)
	src, ok := f.N[o]
	if !ok {
		return "src-missing"
	}
	if o == "/" {
		return "root"
	}
	if o == n {
		return ""
	}
	if r := f.parentCheck(n); r != "" {
		return "dst-" + r
	}
	if strings.HasPrefix(n, o+"/") {
		return "into-self"
	}
	if dst, ok := f.N[n]; ok {
		if dst.Dir != src.Dir {
			return "kind-mismatch"
		}
		if dst.Dir && len(f.children(n)) > 0 {
			return "dst-not-empty"
		}
		if n == "/" {
			return "root"
		}
		delete(f.N, n)
	}
	kids := f.children(o)
	f.N[n] = src
	delete(f.N, o)
	for _, c := range kids {
		f.N[n+strings.TrimPrefix(c, o)] = f.N[c]
		delete(f.N, c)
	}
	return ""
}

func (f *FS) Chmod(p string, perm uint32) string {
	n, ok := f.N[Clean(p)]
	if !ok {
		return "not-exist"
	}
	n.Perm = perm
	return ""
}

func (f *FS) Chown(p string, uid, gid int) string {
	n, ok := f.N[Clean(p)]
	if !ok {
		return "not-exist"
	}
	n.UID, n.GID = uid, gid
	return ""
}

func (f *FS) Chtimes(p string, at, mt int64) string {
	n, ok := f.N[Clean(p)]
	if !ok {
		return "not-exist"
	}
	n.Atime, n.Mtime = &at, &mt
	return ""
}

// Key is a canonical dump of the model state.
func (f *FS) Key() string {
	var sb strings.Builder
	for _, p := range f.Paths() {
		n := f.N[p]
		fmt.Fprintf(&sb, "%s|%v|%o|%d|%d|", p, n.Dir, n.Perm, n.UID, n.GID)
		if n.Mtime != nil {
			fmt.Fprintf(&sb, "m%d", *n.Mtime)
		}
		if n.Atime != nil {
			fmt.Fprintf(&sb, "a%d", *n.Atime)
		}
		if !n.Dir {
			fmt.Fprintf(&sb, "|%d:%x", len(n.Data), shortHash(n.Data))
		}
		sb.WriteByte('\n')
	}
	return sb.String()
}

func shortHash(b []byte) uint64 {
	var h uint64 = 1469598103934665603
	for _, c := range b {
		h ^= uint64(c)
		h *= 1099511628211
	}
	return h
}

// ---------------------------------------------------------------------------------------------------------------------
// Raw (archive-level) operations: tar semantics, no parent checks.

func (f *FS) RawSet(p string, dir bool, data []byte, perm uint32) {
	p = Clean(p)
	f.gen++
	n := &Node{Dir: dir, Perm: perm, UID: f.UID, GID: f.GID, ContentGen: f.gen}
	if !dir {
		n.Data = append([]byte(nil), data...)
	}
	f.N[p] = n
}

func (f *FS) RawUpdate(p string, replace bool, data []byte, perm uint32) bool {
	p = Clean(p)
	n, ok := f.N[p]
	if !ok {
		return false
	}
	n.Perm = perm
	if replace && !n.Dir {
		f.gen++
		n.ContentGen = f.gen
		n.Data = append([]byte(nil), data...)
	}
	return true
}

func (f *FS) RawDelete(p string) bool {
	p = Clean(p)
	n, ok := f.N[p]
	if !ok {
		return false
	}
	if n.Dir {
		for _, c := range f.children(p) {
			delete(f.N, c)
		}
	}
	delete(f.N, p)
	return true
}

func (f *FS) RawMove(o, n string) bool {
	o, n = Clean(o), Clean(n)
	src, ok := f.N[o]
	if !ok {
		return false
	}
	if o == n {
		return true
	}
	kids := []string{}
	if src.Dir {
		kids = f.children(o)
	}
	f.N[n] = src
	delete(f.N, o)
	for _, c := range kids {
		f.N[n+strings.TrimPrefix(c, o)] = f.N[c]
		delete(f.N, c)
	}
	return true
}
