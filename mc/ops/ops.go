// Package ops defines the operation alphabet shared by the engines, and executes operations on the real stack
// and on the reference model.
package ops

import (
	"errors"
	"fmt"
	"os"
	"strconv"
	"strings"
	"time"

	"archive/tar"
	"bytes"
	"io"

	"github.com/pojntfx/stfs/pkg/config"
	"github.com/pojntfx/stfs/pkg/zzverif/vsync"
	"github.com/spf13/afero"
	"stfsmc/model"
	"stfsmc/rig"
)

type Op struct {
	K string `json:"k"`
	P string `json:"p,omitempty"`
	Q string `json:"q,omitempty"`
	C string `json:"c,omitempty"` // content spec
	N int    `json:"n,omitempty"` // flags / mode / count
	H int    `json:"h,omitempty"` // handle slot
}

func (o Op) String() string {
	switch o.K {
	case "archive":
		return "archive[" + o.P + "]"
	case "update":
		return fmt.Sprintf("update %s replace=%d %s", o.P, o.N, strconv.Quote(o.C))
	case "delete":
		return "delete " + o.P
	case "move":
		return fmt.Sprintf("move %s %s", o.P, o.Q)
	case "init-first":
		return "Initialize (empty drive)"
	case "init-again":
		return "Initialize (again, same instance)"
	case "open-existing":
		return "Initialize (fresh instance, same tape, same index)"
	case "open-noindex":
		return "Initialize (fresh instance, same tape, empty index)"
	case "hopen":
		return fmt.Sprintf("h%d=open %s %s", o.H, o.P, FlagString(o.N))
	case "hread":
		return fmt.Sprintf("h%d.read(%d)", o.H, o.N)
	case "hreadall":
		return fmt.Sprintf("h%d.readall", o.H)
	case "hwrite":
		return fmt.Sprintf("h%d.write(%s)", o.H, strconv.Quote(o.C))
	case "hseek":
		return fmt.Sprintf("h%d.seek(%d)", o.H, o.N)
	case "hsync":
		return fmt.Sprintf("h%d.sync", o.H)
	case "hclose":
		return fmt.Sprintf("h%d.close", o.H)
	case "hlist":
		return fmt.Sprintf("h%d.readdirnames", o.H)
	case "htrunc":
		return fmt.Sprintf("h%d.truncate(%d)", o.H, o.N)
	case "hwriteat":
		return fmt.Sprintf("h%d.writeat(%s,%d)", o.H, strconv.Quote(o.C), o.N)
	case "hwritestring":
		return fmt.Sprintf("h%d.writestring(%s)", o.H, strconv.Quote(o.C))
	case "create", "readlink", "lstat":
		return o.K + " " + o.P
	case "rebuild":
		return "REBUILD-INDEX"
	case "reopen":
		return "REOPEN"
	case "reindex":
		return "REINDEX-SAME-STORE"
	case "mkdir", "mkdirall", "remove", "removeall", "stat", "list", "read", "many":
		return fmt.Sprintf("%s %s", o.K, o.P)
	case "put":
		return fmt.Sprintf("put %s %s", o.P, strconv.Quote(o.C))
	case "putp":
		return fmt.Sprintf("put(pattern %d) %s %s", o.N, o.P, strconv.Quote(o.C))
	case "rename", "symlink":
		return fmt.Sprintf("%s %s %s", o.K, o.P, o.Q)
	case "chmod":
		return fmt.Sprintf("chmod %s %o", o.P, o.N)
	case "chown", "chtimes":
		return fmt.Sprintf("%s %s", o.K, o.P)
	case "chtimesz":
		return fmt.Sprintf("chtimes(times in zone +01:45) %s", o.P)
	case "openw":
		return fmt.Sprintf("openw %s flags=%s %s", o.P, FlagString(o.N), strconv.Quote(o.C))
	}
	return fmt.Sprintf("%s %s %s %s n=%d h=%d", o.K, o.P, o.Q, strconv.Quote(o.C), o.N, o.H)
}

func FlagString(f int) string {
	s := []string{"RDONLY", "WRONLY", "RDWR", "?"}[f&3]
	if f&os.O_CREATE != 0 {
		s += "|CREATE"
	}
	if f&os.O_EXCL != 0 {
		s += "|EXCL"
	}
	if f&os.O_TRUNC != 0 {
		s += "|TRUNC"
	}
	if f&os.O_APPEND != 0 {
		s += "|APPEND"
	}
	return s
}

func HistString(h []Op) string {
	parts := make([]string, len(h))
	for i, o := range h {
		parts[i] = o.String()
	}
	return strings.Join(parts, "; ")
}

// Content expands a content spec: "" empty; "T<n>[:seed]" n bytes of text; "Z<n>" zeros; "R<n>[:seed]" pseudo-random
// (incompressible); anything else literal.
func Content(spec string) []byte {
	if len(spec) >= 2 && (spec[0] == 'T' || spec[0] == 'Z' || spec[0] == 'R') && spec[1] >= '0' && spec[1] <= '9' {
		body := spec[1:]
		seed := 0
		if i := strings.IndexByte(body, ':'); i >= 0 {
			seed, _ = strconv.Atoi(body[i+1:])
			body = body[:i]
		}
		n, err := strconv.Atoi(body)
		if err == nil {
			b := make([]byte, n)
			switch spec[0] {
			case 'T':
				for i := range b {
					if i%64 == 63 {
						b[i] = '\n'
					} else {
						b[i] = byte('a' + (i*7+seed+i/64)%26)
					}
				}
			case 'R':
				x := uint64(88172645463325252 + seed*7919)
				for i := range b {
					x ^= x << 13
					x ^= x >> 7
					x ^= x << 17
					b[i] = byte(x >> 24)
				}
			}
			return b
		}
	}
	if strings.HasPrefix(spec, "H:") {
		// a payload shaped like a tar header: a valid ustar block describing an (empty) entry of that name
		var buf bytes.Buffer
		tw := tar.NewWriter(&buf)
		_ = tw.WriteHeader(&tar.Header{Typeflag: tar.TypeReg, Name: spec[2:], Size: 0, Mode: 0o644, Format: tar.FormatUSTAR})
		return append([]byte(nil), buf.Bytes()[:512]...)
	}
	return []byte(spec)
}

var ErrNoHandle = errors.New("harness: no such handle (call skipped)")
var ErrSlotBusy = errors.New("harness: handle slot in use (call skipped)")

var (
	T1 = time.Unix(1234567891, 0).UTC()
	T2 = time.Unix(1122334455, 0).UTC()
)

const (
	ChownUID = 918273645
	ChownGID = 192837465
)

// ExecModel applies op to the reference model and returns the failure reason ("" = success).
func ExecModel(m *model.FS, o Op) string {
	switch o.K {
	case "mkdir":
		return m.Mkdir(o.P, 0o755)
	case "mkdirall":
		return m.MkdirAll(o.P, 0o755)
	case "put", "putp":
		return m.Put(o.P, Content(o.C), 0o666)
	case "remove":
		return m.Remove(o.P)
	case "removeall":
		return m.RemoveAll(o.P)
	case "rename":
		return m.Rename(o.P, o.Q)
	case "chmod":
		return m.Chmod(o.P, uint32(o.N))
	case "chown":
		return m.Chown(o.P, ChownUID, ChownGID)
	case "chtimes", "chtimesz":
		return m.Chtimes(o.P, T1.UnixNano(), T2.UnixNano())
	case "openw":
		// OpenFile(flags) + Write(C) (if C != "" ) + Close
		p := model.Clean(o.P)
		if r := m.OpenCheck(p, o.N, 0o644); r != "" {
			return r
		}
		if o.C != "" {
			acc := o.N & 3
			if acc == model.ORdonly {
				return "write-on-rdonly" // the open succeeded; the write fails; handled by the caller as partial
			}
			n := m.N[p]
			if n.Dir {
				return "is-dir"
			}
			data := Content(o.C)
			if o.N&model.OAppend != 0 {
				m.SetData(p, append(append([]byte(nil), n.Data...), data...))
			} else {
				nd := append([]byte(nil), n.Data...)
				if len(nd) < len(data) {
					nd = append(nd, make([]byte, len(data)-len(nd))...)
				}
				copy(nd, data)
				m.SetData(p, nd)
			}
		}
		return ""
	case "archive":
		for _, mb := range Members(o.P) {
			m.RawSet(mb.Name, mb.Dir, Content(mb.C), mb.perm())
		}
		return ""
	case "update":
		if !m.RawUpdate(o.P, o.N == 1, Content(o.C), 0o640) {
			return "not-exist"
		}
		return ""
	case "delete":
		if !m.RawDelete(o.P) {
			return "not-exist"
		}
		return ""
	case "move":
		if !m.RawMove(o.P, o.Q) {
			return "src-missing"
		}
		return ""
	case "many":
		if r := m.Mkdir(o.P, 0o755); r != "" {
			return r
		}
		for i := 0; i < 12; i++ {
			if i%3 == 0 {
				m.Mkdir(fmt.Sprintf("%s/c%02d", o.P, i), 0o755)
			} else {
				m.Put(fmt.Sprintf("%s/c%02d", o.P, i), []byte(fmt.Sprint(i)), 0o666)
			}
		}
		return ""
	case "rebuild", "reopen", "reindex":
		return ""
	case "stat", "read", "list":
		p := model.Clean(o.P)
		n, ok := m.N[p]
		if !ok {
			return "not-exist"
		}
		if o.K == "list" && !n.Dir {
			return "not-dir"
		}
		if o.K == "read" && n.Dir {
			return "is-dir"
		}
		return ""
	}
	panic("ExecModel: unknown op " + o.K)
}

// ExecImpl runs op against the real file system and returns its error.
func ExecImpl(s *rig.Stack, o Op) error {
	var fsys afero.Fs = s.AFS
	switch o.K {
	case "mkdir":
		return fsys.Mkdir(o.P, 0o755)
	case "mkdirall":
		return fsys.MkdirAll(o.P, 0o755)
	case "put":
		f, err := fsys.OpenFile(o.P, os.O_RDWR|os.O_CREATE|os.O_TRUNC, 0o666)
		if err != nil {
			return err
		}
		data := Content(o.C)
		if len(data) > 0 {
			if n, err := f.Write(data); err != nil {
				_ = f.Close()
				return fmt.Errorf("write: %w", err)
			} else if n != len(data) {
				_ = f.Close()
				return fmt.Errorf("short write %d/%d", n, len(data))
			}
		}
		return f.Close()
	case "putp":
		// the same final content as put, produced by a multi-step write pattern (N selects it)
		f, err := fsys.OpenFile(o.P, os.O_RDWR|os.O_CREATE|os.O_TRUNC, 0o666)
		if err != nil {
			return err
		}
		data := Content(o.C)
		k := (len(data) + 1) / 2
		if len(data) > 8 {
			k = len(data) / 3
		}
		a, b := data[:k], data[k:]
		var werr error
		switch o.N {
		case 1: // Write; Sync; Write
			if _, werr = f.Write(a); werr == nil {
				if werr = f.Sync(); werr == nil {
					_, werr = f.Write(b)
				}
			}
		case 2: // WriteString in two steps
			if _, werr = f.WriteString(string(a)); werr == nil {
				_, werr = f.WriteString(string(b))
			}
		case 3: // second part first (WriteAt), then the first part
			if len(b) > 0 {
				_, werr = f.WriteAt(b, int64(len(a)))
			}
			if werr == nil && len(a) > 0 {
				_, werr = f.WriteAt(a, 0)
			}
		case 4: // everything, then back to the middle, a size query on the handle, and the second part once more
			if _, werr = f.Write(data); werr == nil {
				if _, werr = f.Seek(int64(len(a)), io.SeekStart); werr == nil {
					if _, werr = f.Stat(); werr == nil {
						_, werr = f.Write(b)
					}
				}
			}
		default:
			_, werr = f.Write(data)
		}
		if werr != nil {
			_ = f.Close()
			return fmt.Errorf("write: %w", werr)
		}
		return f.Close()
	case "remove":
		return fsys.Remove(o.P)
	case "removeall":
		return fsys.RemoveAll(o.P)
	case "rename":
		return fsys.Rename(o.P, o.Q)
	case "chmod":
		return fsys.Chmod(o.P, os.FileMode(o.N))
	case "chown":
		return fsys.Chown(o.P, ChownUID, ChownGID)
	case "chtimes":
		return fsys.Chtimes(o.P, T1, T2)
	case "chtimesz":
		// the same instants, carried by time values in a zone without an alphabetic abbreviation (what time.Parse of an
		// RFC 3339 string with a numeric offset yields, and what time.Now() yields on hosts in such a zone)
		z := time.FixedZone("", 3600+45*60)
		return fsys.Chtimes(o.P, T1.In(z), T2.In(z))
	case "symlink":
		if l, ok := fsys.(afero.Linker); ok {
			return l.SymlinkIfPossible(o.P, o.Q)
		}
		return errors.New("harness: file system has no symlink support")
	case "openw":
		f, err := fsys.OpenFile(o.P, o.N, 0o644)
		if err != nil {
			return err
		}
		var werr error
		if o.C != "" {
			_, werr = f.Write(Content(o.C))
			if werr != nil {
				werr = fmt.Errorf("write: %w", werr)
			}
		}
		cerr := f.Close()
		if werr != nil {
			return werr
		}
		return cerr
	case "archive":
		mbs := Members(o.P)
		i := 0
		_, err := s.WriteOps.Archive(func() (config.FileConfig, error) {
			if i >= len(mbs) {
				return config.FileConfig{}, io.EOF
			}
			mb := mbs[i]
			i++
			return mb.fileConfig(), nil
		}, s.Cfg.Level, false, false)
		return err
	case "update":
		mb := Member{Name: o.P, C: o.C, Perm: 0o640}
		if info, err := fsys.Stat(o.P); err == nil && info.IsDir() {
			mb.Dir = true
		}
		done := false
		_, err := s.WriteOps.Update(func() (config.FileConfig, error) {
			if done {
				return config.FileConfig{}, io.EOF
			}
			done = true
			return mb.fileConfig(), nil
		}, s.Cfg.Level, o.N == 1, false)
		return err
	case "delete":
		return s.WriteOps.Delete(o.P)
	case "move":
		return s.WriteOps.Move(o.P, o.Q)
	case "hopen":
		if s.GetHandle(o.H) != nil {
			return ErrSlotBusy // the harness never leaks a handle by overwriting its slot
		}
		f, err := fsys.OpenFile(o.P, o.N, 0o644)
		if err != nil {
			return err
		}
		s.SetHandle(o.H, &rig.Handle{F: f, Path: o.P, Flags: o.N})
		return nil
	case "many":
		if err := fsys.Mkdir(o.P, 0o755); err != nil {
			return err
		}
		for i := 0; i < 12; i++ {
			var err error
			if i%3 == 0 {
				err = fsys.Mkdir(fmt.Sprintf("%s/c%02d", o.P, i), 0o755)
			} else {
				err = ExecImpl(s, Op{K: "put", P: fmt.Sprintf("%s/c%02d", o.P, i), C: fmt.Sprint(i)})
			}
			if err != nil {
				return fmt.Errorf("child %d: %w", i, err)
			}
		}
		return nil
	case "create":
		f, err := fsys.Create(o.P)
		if err != nil {
			return err
		}
		return f.Close()
	case "readlink":
		if l, ok := fsys.(afero.LinkReader); ok {
			_, err := l.ReadlinkIfPossible(o.P)
			return err
		}
		return errors.New("harness: no readlink support")
	case "lstat":
		if l, ok := fsys.(afero.Lstater); ok {
			_, _, err := l.LstatIfPossible(o.P)
			return err
		}
		return errors.New("harness: no lstat support")
	case "hread", "hreadall", "hwrite", "hsync", "hclose", "hseek", "htrunc", "hwriteat", "hwritestring":
		h := s.GetHandle(o.H)
		if h == nil {
			return ErrNoHandle
		}
		switch o.K {
		case "hread":
			buf := make([]byte, o.N)
			_, err := h.F.Read(buf)
			h.Reads++
			if err == io.EOF {
				return nil
			}
			return err
		case "hreadall":
			_, err := rig.ReadAll(h.F)
			h.Reads++
			return err
		case "hwrite":
			_, err := h.F.Write(Content(o.C))
			h.Writes++
			return err
		case "hseek":
			h.Seeks++
			_, err := h.F.Seek(int64(o.N), 0)
			return err
		case "htrunc":
			h.Writes++
			return h.F.Truncate(int64(o.N))
		case "hwriteat":
			h.Writes++
			_, err := h.F.WriteAt(Content(o.C), int64(o.N))
			return err
		case "hwritestring":
			h.Writes++
			_, err := h.F.WriteString(string(Content(o.C)))
			return err
		case "hsync":
			return h.F.Sync()
		default:
			s.DelHandle(o.H)
			return h.F.Close()
		}
	case "stat":
		_, err := fsys.Stat(o.P)
		return err
	case "read":
		_, err := rig.ReadFile(fsys, o.P)
		return err
	case "list":
		f, err := fsys.Open(o.P)
		if err != nil {
			return err
		}
		_, err = f.Readdir(-1)
		_ = f.Close()
		return err
	}
	panic("ExecImpl: unknown op " + o.K)
}

var _ afero.Fs

// Member is one entry of a batched Archive call.
type Member struct {
	Name string
	Dir  bool
	C    string
	Perm uint32
}

func (m Member) perm() uint32 {
	if m.Perm != 0 {
		return m.Perm
	}
	if m.Dir {
		return 0o755
	}
	return 0o644
}

// MemberPool is the fixed pool the archive-level alphabet draws from.
var MemberPool = map[string]Member{
	"d": {Name: "/d", Dir: true},
	"e": {Name: "/e", C: ""},
	"f": {Name: "/d/f", C: "hello"},
	"g": {Name: "/g", C: "T1300"},
	"n": {Name: "/d/n", C: "T512:3"},
	"h": {Name: "/h", C: "T511:5"},
	"k": {Name: "/k", C: "T513:7"},
}

// Members parses a comma separated list of pool ids.
func Members(ids string) []Member {
	out := []Member{}
	for _, id := range strings.Split(ids, ",") {
		if m, ok := MemberPool[id]; ok {
			out = append(out, m)
		}
	}
	return out
}

type rsc struct{ *bytes.Reader }

func (rsc) Close() error { return nil }

func (m Member) fileConfig() config.FileConfig {
	data := Content(m.C)
	hdr := &tar.Header{Typeflag: tar.TypeReg, Name: m.Name, Size: int64(len(data)), Mode: int64(m.perm()), Uid: os.Getuid(), Gid: os.Getgid(), ModTime: vsync.Now()}
	if m.Dir {
		hdr.Typeflag = tar.TypeDir
		hdr.Size = 0
	}
	return config.FileConfig{
		GetFile: func() (io.ReadSeekCloser, error) { return rsc{bytes.NewReader(data)}, nil },
		Info:    hdr.FileInfo(),
		Path:    m.Name,
	}
}
