// Package zzx re-exports the few internal helpers the harness needs (mapped into the stfs module by the overlay).
package zzx

import (
	"github.com/pojntfx/stfs/internal/suffix"
	"github.com/pojntfx/stfs/internal/tarext"
)

var NewTapeWriter = tarext.NewTapeWriter
var AddSuffix = suffix.AddSuffix
var RemoveSuffix = suffix.RemoveSuffix
