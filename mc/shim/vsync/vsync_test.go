package vsync

import (
	"fmt"
	"io"
	"reflect"
	"strings"
	"testing"
)

// exploreAll runs body under every schedule (no preemption bound) and returns one observation per schedule.
func exploreAll(t *testing.T, build func(s *Sched, obs *[]string)) (results [][]string, deadlocks int) {
	var rec func(prefix []int)
	rec = func(prefix []int) {
		s := NewSched()
		s.ParkAlways = true
		s.KeepTrace = true
		pos := 0
		s.Choose = func(_ *Sched, en []*Thread, _ bool) int {
			c := 0
			if pos < len(prefix) {
				c = prefix[pos]
			}
			pos++
			return c
		}
		obs := []string{}
		Install(s)
		build(s, &obs)
		ok := s.Run()
		Install(nil)
		if !ok {
			deadlocks++
			obs = append(obs, "DEADLOCK")
		}
		results = append(results, obs)
		for i := len(prefix); i < len(s.Trace); i++ {
			for alt := 1; alt < len(s.Trace[i].Enabled); alt++ {
				child := []int{}
				for _, st := range s.Trace[:i] {
					child = append(child, st.Choice)
				}
				rec(append(child, alt))
			}
		}
	}
	rec(nil)
	return
}

func TestTwoLockDeadlock(t *testing.T) {
	res, dl := exploreAll(t, func(s *Sched, obs *[]string) {
		var a, b Mutex
		s.Spawn("T0", func() { a.Lock(); b.Lock(); b.Unlock(); a.Unlock() })
		s.Spawn("T1", func() { b.Lock(); a.Lock(); a.Unlock(); b.Unlock() })
	})
	if dl == 0 || dl == len(res) {
		t.Fatalf("expected some but not all of %d schedules to deadlock, got %d", len(res), dl)
	}
	t.Logf("%d schedules, %d deadlock", len(res), dl)
}

func TestMutexExcludes(t *testing.T) {
	res, dl := exploreAll(t, func(s *Sched, obs *[]string) {
		var m Mutex
		in := 0
		for i := 0; i < 3; i++ {
			s.Spawn(fmt.Sprint("T", i), func() {
				m.Lock()
				in++
				if in != 1 {
					*obs = append(*obs, "OVERLAP")
				}
				Seam("inside") // no-op unless seam points are on
				in--
				m.Unlock()
			})
		}
	})
	if dl != 0 {
		t.Fatalf("unexpected deadlock")
	}
	for _, r := range res {
		if len(r) != 0 {
			t.Fatalf("mutual exclusion violated: %v", r)
		}
	}
}

// pipe script: the data stream and the errors seen must be those of io.Pipe under every schedule
func pipeScript(pr interface {
	Read([]byte) (int, error)
	Close() error
}, pw interface {
	Write([]byte) (int, error)
	Close() error
}, spawn func(name string, f func()), obs *[]string, readerClosesEarly bool) {
	spawn("writer", func() {
		for _, chunk := range []string{"abc", "de", "fghij"} {
			n, err := pw.Write([]byte(chunk))
			*obs = append(*obs, fmt.Sprintf("w:%d:%v", n, err))
			if err != nil {
				return
			}
		}
		pw.Close()
	})
	spawn("reader", func() {
		buf := make([]byte, 2)
		got := ""
		for i := 0; ; i++ {
			if readerClosesEarly && i == 2 {
				pr.Close()
				*obs = append(*obs, "r:closed:"+got)
				return
			}
			n, err := pr.Read(buf)
			got += string(buf[:n])
			if err != nil {
				*obs = append(*obs, fmt.Sprintf("r:%s:%v", got, err))
				return
			}
		}
	})
}

func normalise(obs []string) string {
	r, w := []string{}, []string{}
	for _, o := range obs {
		if strings.HasPrefix(o, "r:") {
			r = append(r, o)
		} else {
			w = append(w, o)
		}
	}
	return strings.Join(w, ",") + " | " + strings.Join(r, ",")
}

func TestPipeMatchesIoPipe(t *testing.T) {
	for _, early := range []bool{false, true} {
		// reference: real io.Pipe with real goroutines (the observable outcome of this script is schedule independent,
		// except how many bytes of the chunk in flight the writer reports when the reader closes early)
		ref := []string{}
		done := make(chan struct{}, 2)
		pr, pw := io.Pipe()
		var refObsW, refObsR []string
		_ = ref
		pipeScript(pr, pw, func(name string, f func()) {
			go func() { f(); done <- struct{}{} }()
		}, &refObsW, early)
		<-done
		<-done
		refObsR = refObsW
		want := normalise(refObsR)
		res, dl := exploreAll(t, func(s *Sched, obs *[]string) {
			r, w := Pipe()
			pipeScript(r, w, func(name string, f func()) { s.Spawn(name, f) }, obs, early)
		})
		if dl != 0 {
			t.Fatalf("early=%v: deadlock in pipe script", early)
		}
		seen := map[string]bool{}
		for _, r := range res {
			seen[normalise(r)] = true
		}
		if !seen[want] {
			t.Fatalf("early=%v: io.Pipe outcome %q not among managed outcomes %v", early, want, seen)
		}
		if !early && len(seen) != 1 {
			t.Fatalf("schedule dependent outcome without early close: %v", seen)
		}
		t.Logf("early=%v: %d schedules, outcomes %v", early, len(res), seen)
	}
}

func TestReplayIsDeterministic(t *testing.T) {
	run := func(prefix []int) []Step {
		s := NewSched()
		s.ParkAlways = true
		s.KeepTrace = true
		pos := 0
		s.Choose = func(_ *Sched, en []*Thread, _ bool) int {
			c := 0
			if pos < len(prefix) && prefix[pos] < len(en) {
				c = prefix[pos]
			}
			pos++
			return c
		}
		Install(s)
		var a Mutex
		r, w := Pipe()
		s.Spawn("A", func() { a.Lock(); w.Write([]byte("x")); a.Unlock(); w.Close() })
		s.Spawn("B", func() { b := make([]byte, 4); r.Read(b); a.Lock(); a.Unlock() })
		s.Run()
		Install(nil)
		return s.Trace
	}
	p := []int{1, 0, 1, 0, 0, 1}
	t1, t2 := run(p), run(p)
	if !reflect.DeepEqual(t1, t2) {
		t.Fatalf("same schedule, different traces:\n%v\n%v", t1, t2)
	}
}

func TestFreeModePassThrough(t *testing.T) {
	Install(nil)
	var m Mutex
	m.Lock()
	if m.TryLock() {
		t.Fatal("TryLock succeeded on a locked mutex")
	}
	m.Unlock()
	r, w := Pipe()
	Go(func() { w.Write([]byte("hi")); w.Close() })
	b, _ := io.ReadAll(r)
	WaitFree()
	if string(b) != "hi" {
		t.Fatalf("got %q", b)
	}
}
