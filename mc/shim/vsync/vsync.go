// Package vsync is the scheduler-aware replacement for sync.Mutex, `go`, io.Pipe and time.Now that the
// build overlay maps into github.com/pojntfx/stfs/pkg/zzverif/vsync. It must only depend on the standard library.
//
// Two modes:
//   - free (no scheduler installed): thin wrappers over sync.Mutex, go, io.Pipe, time.Now
//   - managed (Install(s)): exactly one managed goroutine runs at a time; every blocking operation is a
//     scheduling point decided by the controller; "no enabled thread" is a deterministic deadlock verdict.
package vsync

import (
	"errors"
	"fmt"
	"io"
	"runtime"
	"strings"
	"sync"
	"sync/atomic"
	"time"
)

type Once = sync.Once

// WaitGroup: in managed mode Wait is a scheduling point (enabled when the counter is zero); free mode = sync.WaitGroup.
type WaitGroup struct {
	wg sync.WaitGroup
	n  int
}

func (w *WaitGroup) Add(delta int) {
	if s := cur.Load(); s == nil {
		w.wg.Add(delta)
		return
	}
	w.n += delta
	if w.n < 0 {
		panic("sync: negative WaitGroup counter")
	}
}

func (w *WaitGroup) Done() { w.Add(-1) }

func (w *WaitGroup) Wait() {
	s := cur.Load()
	if s == nil {
		w.wg.Wait()
		return
	}
	if s.aborting {
		return
	}
	s.at(PLock, "waitgroup", func() bool { return w.n == 0 })
}

// ---------------------------------------------------------------------------------------------------------------------
// Scheduler

type PointKind string

const (
	PStart     PointKind = "start"
	PLock      PointKind = "lock"
	PPipeWrite PointKind = "pipe-write"
	PPipeWait  PointKind = "pipe-write-wait"
	PPipeRead  PointKind = "pipe-read"
	PSeam      PointKind = "seam"
	PQuiesce   PointKind = "quiesce"
	PYield     PointKind = "yield"
)

type point struct {
	kind    PointKind
	where   string
	obj     string
	enabled func() bool
}

type Thread struct {
	ID     int
	Name   string
	Client bool

	resume     chan struct{}
	done       bool
	pt         *point
	Panic      interface{}
	PanicStack string
}

// Step is one scheduling decision recorded in the trace.
type Step struct {
	Thread         int    `json:"t"`
	Kind           string `json:"k"`
	Where          string `json:"w"`
	Enabled        []int  `json:"e"`
	Choice         int    `json:"c"` // index into Enabled (canonical order)
	RunningEnabled bool   `json:"r"` // the previously running thread was still enabled (switching away = preemption)
}

type Waiter struct {
	Thread string `json:"thread"`
	Kind   string `json:"kind"`
	Where  string `json:"where"`
	Obj    string `json:"obj"`
}

// Sched is a cooperative scheduler. Not safe for use by unmanaged goroutines except through ExternalWait.
type Sched struct {
	threads []*Thread
	running *Thread
	last    *Thread
	yield   chan struct{}

	// ParkAlways makes every point a scheduling decision (DFS). Otherwise a thread only parks when its
	// operation is not enabled (sequential default schedule).
	ParkAlways bool
	// SeamPoints makes Seam() a scheduling point.
	SeamPoints bool
	// Choose picks the index into enabled (canonical order: last running first if enabled, then ascending id).
	Choose func(s *Sched, enabled []*Thread, lastEnabled bool) int

	Trace     []Step
	KeepTrace bool
	Steps     int
	MaxSteps  int

	aborting bool
	Deadlock []Waiter
	Livelock bool
	Crashes  []string // panics on managed goroutines ("process would have crashed")

	clock    int64
	mutexSeq int
	pipeSeq  int
}

var cur atomic.Pointer[Sched]

type abortSentinel struct{}

// IsAbort reports whether a recovered panic value is the scheduler's unwinding sentinel (which must be re-panicked).
func IsAbort(r interface{}) bool { _, ok := r.(abortSentinel); return ok }

func NewSched() *Sched {
	return &Sched{yield: make(chan struct{}), MaxSteps: 2000000}
}

// Install makes s the scheduler used by all vsync primitives (nil = free mode).
func Install(s *Sched) { cur.Store(s) }
func Current() *Sched  { return cur.Load() }

func caller(skip int) string {
	pcs := make([]uintptr, 8)
	n := runtime.Callers(skip+1, pcs)
	frames := runtime.CallersFrames(pcs[:n])
	for {
		f, more := frames.Next()
		fn := f.Function
		if fn != "" && !strings.Contains(fn, "/vsync.") && !strings.HasPrefix(fn, "sync.") {
			if i := strings.LastIndex(fn, "/"); i >= 0 {
				fn = fn[i+1:]
			}
			// strip closure suffixes so that names are stable
			for strings.HasSuffix(fn, ".func1") || strings.HasSuffix(fn, ".func2") || strings.HasSuffix(fn, ".func3") {
				fn = fn[:len(fn)-6]
			}
			return fn
		}
		if !more {
			return "?"
		}
	}
}

func (s *Sched) newThread(name string, client bool) *Thread {
	t := &Thread{ID: len(s.threads), Name: name, Client: client, resume: make(chan struct{})}
	s.threads = append(s.threads, t)
	return t
}

// Spawn registers a client thread. It starts running when the controller (Run) picks it.
func (s *Sched) Spawn(name string, fn func()) *Thread {
	t := s.newThread(name, true)
	s.start(t, fn)
	return t
}

func (s *Sched) start(t *Thread, fn func()) {
	t.pt = &point{kind: PStart, where: t.Name, enabled: func() bool { return true }}
	go func() {
		<-t.resume
		defer func() {
			if r := recover(); r != nil {
				if _, ok := r.(abortSentinel); !ok {
					t.Panic = r
					buf := make([]byte, 4096)
					buf = buf[:runtime.Stack(buf, false)]
					t.PanicStack = string(buf)
					if !t.Client {
						s.Crashes = append(s.Crashes, fmt.Sprintf("%s: %v", t.Name, r))
					}
				}
			}
			t.done = true
			t.pt = nil
			s.yield <- struct{}{}
		}()
		if s.aborting {
			panic(abortSentinel{})
		}
		fn()
	}()
}

// park is called by the running thread at a scheduling point.
func (s *Sched) park(p *point) {
	t := s.running
	if t == nil {
		panic("vsync: park without running thread")
	}
	if s.aborting {
		return
	}
	t.pt = p
	s.yield <- struct{}{}
	<-t.resume
	t.pt = nil
	if s.aborting {
		panic(abortSentinel{})
	}
}

// at is the generic point: park when required, return when the operation may proceed.
func (s *Sched) at(kind PointKind, obj string, enabled func() bool) {
	if s.aborting {
		return
	}
	if !s.ParkAlways && enabled() {
		return
	}
	s.park(&point{kind: kind, where: caller(3), obj: obj, enabled: enabled})
}

func (s *Sched) enabledThreads() (en []*Thread, lastEnabled bool) {
	for _, t := range s.threads {
		if !t.done && t.pt != nil && t.pt.enabled() {
			en = append(en, t)
		}
	}
	// canonical order: last running first if still enabled
	if s.last != nil {
		for i, t := range en {
			if t == s.last {
				copy(en[1:i+1], en[0:i])
				en[0] = t
				lastEnabled = true
				break
			}
		}
	}
	return
}

// Run drives all threads until every one is done, a deadlock is found, or the step budget is exhausted.
// It returns true when all threads finished.
func (s *Sched) Run() bool {
	for {
		alive := 0
		for _, t := range s.threads {
			if !t.done {
				alive++
			}
		}
		if alive == 0 {
			return true
		}
		en, lastEnabled := s.enabledThreads()
		if len(en) == 0 {
			for _, t := range s.threads {
				if !t.done && t.pt != nil {
					s.Deadlock = append(s.Deadlock, Waiter{Thread: t.Name, Kind: string(t.pt.kind), Where: t.pt.where, Obj: t.pt.obj})
				}
			}
			s.abort()
			return false
		}
		s.Steps++
		if s.Steps > s.MaxSteps {
			s.Livelock = true
			s.abort()
			return false
		}
		c := 0
		if s.Choose != nil && len(en) > 0 {
			c = s.Choose(s, en, lastEnabled)
			if c < 0 || c >= len(en) {
				panic(fmt.Sprintf("vsync: choice %d out of range (%d enabled) at step %d", c, len(en), s.Steps))
			}
		}
		t := en[c]
		if s.KeepTrace {
			ids := make([]int, len(en))
			for i, e := range en {
				ids[i] = e.ID
			}
			s.Trace = append(s.Trace, Step{Thread: t.ID, Kind: string(t.pt.kind), Where: t.pt.where, Enabled: ids, Choice: c, RunningEnabled: lastEnabled})
		}
		s.running = t
		s.last = t
		t.resume <- struct{}{}
		<-s.yield
		s.running = nil
	}
}

// abort unwinds every parked thread: each is resumed in aborting mode, panics with the sentinel, runs its
// deferred functions (vsync operations are no-ops while aborting) and finishes.
func (s *Sched) abort() {
	s.aborting = true
	for _, t := range s.threads {
		if !t.done {
			s.running = t
			t.resume <- struct{}{}
			<-s.yield
		}
	}
	s.running = nil
}

func (s *Sched) Threads() []*Thread { return s.threads }

// Quiesce parks the calling (client) thread until no other thread is enabled.
func Quiesce() {
	s := cur.Load()
	if s == nil {
		return
	}
	me := s.running
	s.park(&point{kind: PQuiesce, where: "quiesce", enabled: func() bool {
		for _, t := range s.threads {
			if t != me && !t.done && t.pt != nil && t.pt.kind != PQuiesce && t.pt.enabled() {
				return false
			}
		}
		return true
	}})
}

// Seam is called by harness wrappers around the persister / backend / cache seams.
func Seam(name string) {
	s := cur.Load()
	if s == nil || !s.SeamPoints || s.aborting || s.running == nil {
		return
	}
	s.park(&point{kind: PSeam, where: name, enabled: func() bool { return true }})
}

// ---------------------------------------------------------------------------------------------------------------------
// Mutex

type Mutex struct {
	mu     sync.Mutex // free mode
	held   bool       // managed mode
	id     int
	Holder string
}

func (m *Mutex) name(s *Sched) string {
	if m.id == 0 {
		s.mutexSeq++
		m.id = s.mutexSeq
	}
	return fmt.Sprintf("m%d", m.id)
}

func (m *Mutex) Lock() {
	s := cur.Load()
	if s == nil {
		m.mu.Lock()
		return
	}
	if s.aborting {
		return
	}
	if s.running == nil {
		// unmanaged goroutine (not expected): spin on the flag cooperatively
		panic("vsync: Mutex.Lock from unmanaged goroutine")
	}
	s.at(PLock, m.name(s), func() bool { return !m.held })
	if s.aborting {
		return
	}
	m.held = true
	m.Holder = caller(2)
}

func (m *Mutex) TryLock() bool {
	s := cur.Load()
	if s == nil {
		return m.mu.TryLock()
	}
	if m.held {
		return false
	}
	m.held = true
	return true
}

func (m *Mutex) Unlock() {
	s := cur.Load()
	if s == nil {
		m.mu.Unlock()
		return
	}
	if s.aborting {
		return
	}
	if !m.held {
		panic("sync: unlock of unlocked mutex")
	}
	m.held = false
	m.Holder = ""
}

// Held reports (managed mode only) whether the mutex is currently held.
func (m *Mutex) Held() bool { return m.held }

// RWMutex: writer-exclusive, readers shared.
type RWMutex struct {
	mu      sync.RWMutex
	writer  bool
	readers int
	id      int
}

func (m *RWMutex) name(s *Sched) string {
	if m.id == 0 {
		s.mutexSeq++
		m.id = s.mutexSeq
	}
	return fmt.Sprintf("rw%d", m.id)
}

func (m *RWMutex) Lock() {
	s := cur.Load()
	if s == nil {
		m.mu.Lock()
		return
	}
	if s.aborting {
		return
	}
	s.at(PLock, m.name(s), func() bool { return !m.writer && m.readers == 0 })
	if s.aborting {
		return
	}
	m.writer = true
}
func (m *RWMutex) Unlock() {
	s := cur.Load()
	if s == nil {
		m.mu.Unlock()
		return
	}
	if s.aborting {
		return
	}
	m.writer = false
}
func (m *RWMutex) RLock() {
	s := cur.Load()
	if s == nil {
		m.mu.RLock()
		return
	}
	if s.aborting {
		return
	}
	s.at(PLock, m.name(s), func() bool { return !m.writer })
	if s.aborting {
		return
	}
	m.readers++
}
func (m *RWMutex) RUnlock() {
	s := cur.Load()
	if s == nil {
		m.mu.RUnlock()
		return
	}
	if s.aborting {
		return
	}
	m.readers--
}

// ---------------------------------------------------------------------------------------------------------------------
// Go

var freeWG sync.WaitGroup
var FreePanics atomic.Int64

// Go replaces the `go` statement.
func Go(fn func()) {
	s := cur.Load()
	if s == nil {
		freeWG.Add(1)
		go func() {
			defer freeWG.Done()
			fn()
		}()
		return
	}
	if s.aborting {
		return
	}
	t := s.newThread("bg:"+caller(2), false)
	s.start(t, fn)
	if s.ParkAlways {
		s.park(&point{kind: PYield, where: "spawn", enabled: func() bool { return true }})
	}
}

// WaitFree waits for all goroutines started through Go in free mode.
func WaitFree() { freeWG.Wait() }

// ---------------------------------------------------------------------------------------------------------------------
// Pipe

type pipe struct {
	id      int
	buf     []byte // pending write (nil = none)
	pending bool
	werr    error // set by writer close
	rerr    error // set by reader close
	wclosed bool
	rclosed bool
}

type PipeReader struct {
	p  *pipe
	fr *io.PipeReader
}
type PipeWriter struct {
	p  *pipe
	fw *io.PipeWriter
}

func Pipe() (*PipeReader, *PipeWriter) {
	s := cur.Load()
	if s == nil {
		r, w := io.Pipe()
		return &PipeReader{fr: r}, &PipeWriter{fw: w}
	}
	s.pipeSeq++
	p := &pipe{id: s.pipeSeq}
	return &PipeReader{p: p}, &PipeWriter{p: p}
}

func (r *PipeReader) Read(b []byte) (int, error) {
	if r.fr != nil {
		return r.fr.Read(b)
	}
	s := cur.Load()
	p := r.p
	if s == nil || s.aborting {
		return 0, io.ErrClosedPipe
	}
	if p.rclosed {
		return 0, io.ErrClosedPipe
	}
	s.at(PPipeRead, fmt.Sprintf("p%d", p.id), func() bool { return p.pending || p.wclosed || p.rclosed })
	if s.aborting {
		return 0, io.ErrClosedPipe
	}
	if p.rclosed {
		return 0, io.ErrClosedPipe
	}
	if p.pending {
		n := copy(b, p.buf)
		p.buf = p.buf[n:]
		if len(p.buf) == 0 {
			p.pending = false
			p.buf = nil
		}
		return n, nil
	}
	// write side closed
	if p.werr != nil {
		return 0, p.werr
	}
	return 0, io.EOF
}

func (r *PipeReader) Close() error { return r.CloseWithError(nil) }

func (r *PipeReader) CloseWithError(err error) error {
	if r.fr != nil {
		return r.fr.CloseWithError(err)
	}
	if err == nil {
		err = io.ErrClosedPipe
	}
	p := r.p
	if !p.rclosed {
		p.rclosed = true
		p.rerr = err
	}
	return nil
}

func (w *PipeWriter) Write(b []byte) (int, error) {
	if w.fw != nil {
		return w.fw.Write(b)
	}
	s := cur.Load()
	p := w.p
	if s == nil || s.aborting {
		return 0, io.ErrClosedPipe
	}
	if p.wclosed {
		return 0, io.ErrClosedPipe
	}
	if p.rclosed {
		return 0, p.rerr
	}
	if len(b) == 0 {
		return 0, nil
	}
	obj := fmt.Sprintf("p%d", p.id)
	// one writer at a time
	s.at(PPipeWrite, obj, func() bool { return !p.pending })
	if s.aborting {
		return 0, io.ErrClosedPipe
	}
	if p.rclosed {
		return 0, p.rerr
	}
	total := len(b)
	p.buf = b
	p.pending = true
	// Wait until drained or the read side is closed. This is always a blocking wait (unbuffered pipe).
	s.park(&point{kind: PPipeWait, where: caller(2), obj: obj, enabled: func() bool { return !p.pending || p.rclosed }})
	if s.aborting {
		return 0, io.ErrClosedPipe
	}
	if p.pending {
		// reader closed with data outstanding
		n := total - len(p.buf)
		p.pending = false
		p.buf = nil
		return n, p.rerr
	}
	return total, nil
}

func (w *PipeWriter) Close() error { return w.CloseWithError(nil) }

func (w *PipeWriter) CloseWithError(err error) error {
	if w.fw != nil {
		return w.fw.CloseWithError(err)
	}
	p := w.p
	if !p.wclosed {
		p.wclosed = true
		p.werr = err
	}
	return nil
}

var _ io.ReadCloser = (*PipeReader)(nil)
var _ io.WriteCloser = (*PipeWriter)(nil)
var ErrUnused = errors.New("unused")

// ---------------------------------------------------------------------------------------------------------------------
// Clock

var ClockBase = time.Date(2022, 1, 2, 3, 4, 5, 0, time.UTC)

// the logical clock is shared by consecutive schedulers of one execution; ResetClock starts a new execution
var clock atomic.Int64

func ResetClock() { clock.Store(0) }

func Now() time.Time {
	s := cur.Load()
	if s == nil {
		return time.Now()
	}
	c := clock.Add(1)
	return ClockBase.Add(time.Duration(c)*time.Second + 123456789)
}
