// mkoverlay generates instrumented copies of /repo/pkg/**.go (non-test) for `go build -overlay`:
//
//	import "sync"      -> import sync ".../pkg/zzverif/vsync"   (Mutex, RWMutex managed; WaitGroup, Once aliased)
//	go f(args)         -> vsync.Go(func(){ f(args) })            (arguments evaluated before the spawn)
//	io.Pipe()          -> vsync.Pipe()   (and the types io.PipeReader / io.PipeWriter -> vsync.PipeReader / vsync.PipeWriter)
//	time.Now()         -> vsync.Now()
//
// plus the virtual package pkg/zzverif/vsync. /repo itself is never written.
// Exit status 2 = cannot instrument (never a verdict).
package main

import (
	"bytes"
	"encoding/json"
	"fmt"
	"go/ast"
	"go/format"
	"go/parser"
	"go/token"
	"os"
	"path/filepath"
	"strconv"
	"strings"
)

const vsyncPath = "github.com/pojntfx/stfs/pkg/zzverif/vsync"

func die(f string, a ...interface{}) {
	fmt.Fprintf(os.Stderr, "mkoverlay: "+f+"\n", a...)
	os.Exit(2)
}

func main() {
	if len(os.Args) != 4 && len(os.Args) != 5 {
		die("usage: mkoverlay <repo> <shim vsync.go> <outdir> [<source tree to read instead of repo>]")
	}
	repo, shim, out := os.Args[1], os.Args[2], os.Args[3]
	// src: where the sources are read from. Normally the repository itself; for trying out a change without touching
	// /repo it is another checkout, and every file that differs from the repository's is put into the overlay too.
	src := repo
	if len(os.Args) == 5 && os.Args[4] != "" {
		src = os.Args[4]
	}
	if err := os.RemoveAll(filepath.Join(out, "src")); err != nil {
		die("%v", err)
	}
	replace := map[string]string{}
	replace[filepath.Join(repo, "pkg/zzverif/vsync/vsync.go")] = shim
	replace[filepath.Join(repo, "pkg/zzverif/zzx/zzx.go")] = filepath.Join(filepath.Dir(filepath.Dir(shim)), "zzx", "zzx.go")

	instrumented := []string{}
	walk := func(p string, info os.FileInfo, err error) error {
		if err != nil {
			return err
		}
		if info.IsDir() || !strings.HasSuffix(p, ".go") || strings.HasSuffix(p, "_test.go") {
			return nil
		}
		if strings.Contains(p, "/zzverif/") {
			return nil
		}
		content, err := os.ReadFile(p)
		if err != nil {
			return err
		}
		rel, _ := filepath.Rel(src, p)
		instrument := strings.HasPrefix(rel, "pkg/")
		res, changed := content, false
		if instrument {
			res, changed, err = rewrite(p, content)
			if err != nil {
				die("%s: %v", p, err)
			}
			if !changed {
				res = content
			}
		}
		if src != repo {
			orig, oerr := os.ReadFile(filepath.Join(repo, rel))
			if oerr != nil || string(orig) != string(content) {
				changed = true
			}
		}
		if !changed {
			return nil
		}
		p = filepath.Join(repo, rel)
		dst := filepath.Join(out, "src", rel)
		if err := os.MkdirAll(filepath.Dir(dst), 0o755); err != nil {
			return err
		}
		if err := os.WriteFile(dst, res, 0o644); err != nil {
			return err
		}
		replace[p] = dst
		instrumented = append(instrumented, rel)
		return nil
	}
	if err := filepath.Walk(filepath.Join(src, "pkg"), walk); err != nil {
		die("%v", err)
	}
	if src != repo {
		for _, d := range []string{"internal", "cmd", "examples"} {
			if _, err := os.Stat(filepath.Join(src, d)); err == nil {
				if err := filepath.Walk(filepath.Join(src, d), walk); err != nil {
					die("%v", err)
				}
			}
		}
	}
	b, _ := json.MarshalIndent(map[string]interface{}{"Replace": replace}, "", " ")
	if err := os.WriteFile(filepath.Join(out, "overlay.json"), b, 0o644); err != nil {
		die("%v", err)
	}
	fmt.Fprintf(os.Stderr, "mkoverlay: instrumented %d files: %s\n", len(instrumented), strings.Join(instrumented, " "))
}

func rewrite(path string, src []byte) ([]byte, bool, error) {
	fset := token.NewFileSet()
	f, err := parser.ParseFile(fset, path, src, parser.ParseComments)
	if err != nil {
		return nil, false, err
	}
	changed := false
	needVsync := false

	// names under which sync / io / time are imported
	syncName, ioName, timeName := "", "", ""
	for _, imp := range f.Imports {
		p, _ := strconv.Unquote(imp.Path.Value)
		name := ""
		if imp.Name != nil {
			name = imp.Name.Name
		}
		switch p {
		case "sync":
			if name == "" {
				name = "sync"
			}
			if name == "_" || name == "." {
				return nil, false, fmt.Errorf("unsupported import form of sync")
			}
			syncName = name
			imp.Path.Value = strconv.Quote(vsyncPath)
			imp.Name = ast.NewIdent(name)
			changed = true
		case "io":
			if name == "" {
				name = "io"
			}
			ioName = name
		case "time":
			if name == "" {
				name = "time"
			}
			timeName = name
		}
	}
	if syncName != "" {
		// make sure only identifiers we provide are used
		known := map[string]bool{"Mutex": true, "RWMutex": true, "WaitGroup": true, "Once": true}
		var bad string
		ast.Inspect(f, func(n ast.Node) bool {
			if se, ok := n.(*ast.SelectorExpr); ok {
				if id, ok := se.X.(*ast.Ident); ok && id.Name == syncName && id.Obj == nil {
					if !known[se.Sel.Name] {
						bad = se.Sel.Name
					}
				}
			}
			return true
		})
		if bad != "" {
			return nil, false, fmt.Errorf("sync.%s is not provided by the vsync shim", bad)
		}
	}

	const alias = "zzvsync"
	// rewrite calls and go statements
	var walkBlock func(list []ast.Stmt) []ast.Stmt
	rewriteExprs := func(n ast.Node) {
		ast.Inspect(n, func(n ast.Node) bool {
			call, ok := n.(*ast.CallExpr)
			if !ok {
				return true
			}
			se, ok := call.Fun.(*ast.SelectorExpr)
			if !ok {
				return true
			}
			id, ok := se.X.(*ast.Ident)
			if !ok || id.Obj != nil {
				return true
			}
			if ioName != "" && id.Name == ioName && se.Sel.Name == "Pipe" && len(call.Args) == 0 {
				id.Name = alias
				changed, needVsync = true, true
			}
			if timeName != "" && id.Name == timeName && se.Sel.Name == "Now" && len(call.Args) == 0 {
				id.Name = alias
				changed, needVsync = true, true
			}
			return true
		})
	}
	rewriteExprs(f)
	// type references io.PipeReader / io.PipeWriter (fields, parameters, variables) follow the rewritten io.Pipe()
	if ioName != "" {
		ast.Inspect(f, func(n ast.Node) bool {
			se, ok := n.(*ast.SelectorExpr)
			if !ok {
				return true
			}
			id, ok := se.X.(*ast.Ident)
			if !ok || id.Obj != nil || id.Name != ioName {
				return true
			}
			if se.Sel.Name == "PipeReader" || se.Sel.Name == "PipeWriter" {
				id.Name = alias
				changed, needVsync = true, true
			}
			return true
		})
	}

	tmp := 0
	walkBlock = func(list []ast.Stmt) []ast.Stmt {
		outl := make([]ast.Stmt, 0, len(list))
		for _, st := range list {
			if g, ok := st.(*ast.GoStmt); ok {
				changed, needVsync = true, true
				call := g.Call
				var pre []ast.Stmt
				if len(call.Args) > 0 {
					// evaluate arguments now, like the go statement does
					lhs := []ast.Expr{}
					newArgs := []ast.Expr{}
					for range call.Args {
						tmp++
						nm := fmt.Sprintf("zzarg%d", tmp)
						lhs = append(lhs, ast.NewIdent(nm))
						newArgs = append(newArgs, ast.NewIdent(nm))
					}
					if call.Ellipsis != token.NoPos {
						return nil
					}
					pre = append(pre, &ast.AssignStmt{Lhs: lhs, Tok: token.DEFINE, Rhs: call.Args})
					call = &ast.CallExpr{Fun: call.Fun, Args: newArgs}
				}
				var fn ast.Expr
				if fl, ok := call.Fun.(*ast.FuncLit); ok && len(call.Args) == 0 && fl.Type.Results == nil {
					fl.Body.List = walkBlock(fl.Body.List)
					fn = fl
				} else {
					fn = &ast.FuncLit{Type: &ast.FuncType{Params: &ast.FieldList{}}, Body: &ast.BlockStmt{List: []ast.Stmt{&ast.ExprStmt{X: call}}}}
				}
				spawn := &ast.ExprStmt{X: &ast.CallExpr{Fun: &ast.SelectorExpr{X: ast.NewIdent(alias), Sel: ast.NewIdent("Go")}, Args: []ast.Expr{fn}}}
				if len(pre) > 0 {
					outl = append(outl, &ast.BlockStmt{List: append(pre, spawn)})
				} else {
					outl = append(outl, spawn)
				}
				continue
			}
			outl = append(outl, st)
		}
		return outl
	}
	failed := false
	ast.Inspect(f, func(n ast.Node) bool {
		switch b := n.(type) {
		case *ast.BlockStmt:
			r := walkBlock(b.List)
			if r == nil && len(b.List) > 0 {
				failed = true
				return false
			}
			b.List = r
		case *ast.CaseClause:
			r := walkBlock(b.Body)
			if r == nil && len(b.Body) > 0 {
				failed = true
				return false
			}
			b.Body = r
		case *ast.CommClause:
			r := walkBlock(b.Body)
			if r == nil && len(b.Body) > 0 {
				failed = true
				return false
			}
			b.Body = r
		case *ast.LabeledStmt:
			if _, ok := b.Stmt.(*ast.GoStmt); ok {
				failed = true
			}
		}
		return true
	})
	if failed {
		return nil, false, fmt.Errorf("unsupported go statement shape")
	}
	// any go statement left (e.g. as the body of an if without block)? must not happen
	left := false
	ast.Inspect(f, func(n ast.Node) bool {
		if _, ok := n.(*ast.GoStmt); ok {
			left = true
		}
		return true
	})
	if left {
		return nil, false, fmt.Errorf("go statement in unsupported position")
	}
	if !changed {
		return nil, false, nil
	}

	var buf bytes.Buffer
	if err := format.Node(&buf, fset, f); err != nil {
		return nil, false, err
	}
	res := buf.String()
	if needVsync {
		// add the aliased import and keep io/time referenced
		extra := "\nimport " + alias + " " + strconv.Quote(vsyncPath) + "\n"
		if ioName != "" && ioName != "_" && ioName != "." {
			extra += "var _ = " + ioName + ".EOF\n"
		}
		if timeName != "" && timeName != "_" && timeName != "." {
			extra += "var _ " + timeName + ".Time\n"
		}
		// insert after the import block: find end of last import decl
		lastImportEnd := 0
		for _, d := range f.Decls {
			if gd, ok := d.(*ast.GenDecl); ok && gd.Tok == token.IMPORT {
				lastImportEnd = int(gd.End())
			}
		}
		_ = lastImportEnd
		// simpler and robust: re-parse the formatted output and insert after its import decls
		fset2 := token.NewFileSet()
		f2, err := parser.ParseFile(fset2, path, res, parser.ImportsOnly)
		if err != nil {
			return nil, false, err
		}
		end := int(f2.Name.End()) - 1
		for _, d := range f2.Decls {
			if gd, ok := d.(*ast.GenDecl); ok && gd.Tok == token.IMPORT {
				end = fset2.Position(gd.End()).Offset
			}
		}
		res = res[:end] + "\n" + extra + res[end:]
	}
	out, err := format.Source([]byte(res))
	if err != nil {
		return nil, false, fmt.Errorf("formatting instrumented source: %v", err)
	}
	return out, true, nil
}
