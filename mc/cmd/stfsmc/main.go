// stfsmc: bounded-exhaustive model checking of pojntfx/stfs. One binary: controller (`check`), worker, replay.
package main

import (
	"bufio"
	"encoding/json"
	"flag"
	"fmt"
	"os"
	"path/filepath"
	"strconv"

	"stfsmc/engines"
	"stfsmc/pool"
	"stfsmc/rig"
)

func verifDir() string {
	if d := os.Getenv("VERIF_DIR"); d != "" {
		return d
	}
	return "/verif"
}

func buildDir() string {
	if d := os.Getenv("VERIF_BUILD_DIR"); d != "" {
		return d
	}
	return filepath.Join(verifDir(), ".build")
}

func keysPath() string { return filepath.Join(buildDir(), "keys.json") }

func main() {
	if len(os.Args) < 2 {
		fmt.Fprintln(os.Stderr, "usage: stfsmc check <Cxx> [--tier quick|thorough] | worker | replay <file> | keys")
		os.Exit(2)
	}
	switch os.Args[1] {
	case "worker":
		workerMain()
	case "keys":
		k, err := rig.GenerateKeys()
		if err != nil {
			fmt.Fprintln(os.Stderr, "keygen:", err)
			os.Exit(2)
		}
		_ = os.MkdirAll(filepath.Dir(keysPath()), 0o755)
		if err := k.Save(keysPath()); err != nil {
			fmt.Fprintln(os.Stderr, err)
			os.Exit(2)
		}
	case "check":
		fs := flag.NewFlagSet("check", flag.ExitOnError)
		tier := fs.String("tier", "quick", "quick|thorough")
		workers := fs.Int("workers", 16, "worker processes")
		prop := os.Args[2]
		_ = fs.Parse(os.Args[3:])
		if t := os.Getenv("VERIF_TIER"); t != "" && !flagSet(fs, "tier") {
			*tier = t
		}
		seed := int64(0)
		if s := os.Getenv("VERIF_SEED"); s != "" {
			seed, _ = strconv.ParseInt(s, 10, 64)
		}
		os.Exit(runCheck(prop, *tier, seed, *workers))
	case "replay":
		os.Exit(runReplay(os.Args[2]))
	case "racebody":
		// stfsmc racebody <scenario> <iterations>   (binary built with -race; free-running goroutines)
		keys, err := rig.LoadKeys(keysPath())
		if err != nil {
			fmt.Fprintln(os.Stderr, err)
			os.Exit(2)
		}
		scratch := filepath.Join("/dev/shm", fmt.Sprintf("stfsmc-race-%d", os.Getpid()))
		_ = os.MkdirAll(scratch, 0o755)
		defer os.RemoveAll(scratch)
		n, _ := strconv.Atoi(os.Args[3])
		fin, stuck, err := engines.RaceBody(&engines.Env{Keys: keys, Scratch: scratch}, os.Args[2], n)
		os.RemoveAll(scratch)
		if err != nil {
			fmt.Fprintln(os.Stderr, "racebody:", err)
			os.Exit(2)
		}
		fmt.Printf("RACEBODY scenario=%s finished=%d stuck=%d\n", os.Args[2], fin, stuck)
	default:
		fmt.Fprintln(os.Stderr, "unknown command", os.Args[1])
		os.Exit(2)
	}
}

func flagSet(fs *flag.FlagSet, name string) bool {
	set := false
	fs.Visit(func(f *flag.Flag) {
		if f.Name == name {
			set = true
		}
	})
	return set
}

func newPool(n int) *pool.Pool {
	exe, _ := os.Executable()
	return &pool.Pool{Exe: exe, N: n}
}

func workerMain() {
	keys, err := rig.LoadKeys(keysPath())
	if err != nil {
		fmt.Fprintln(os.Stderr, "worker: cannot load keys:", err)
		os.Exit(2)
	}
	scratch := filepath.Join("/dev/shm", fmt.Sprintf("stfsmc-%d", os.Getpid()))
	_ = os.MkdirAll(scratch, 0o755)
	defer os.RemoveAll(scratch)
	env := &engines.Env{Keys: keys, Scratch: scratch}
	in := bufio.NewReaderSize(os.Stdin, 1<<20)
	out := bufio.NewWriter(os.Stdout)
	// keep stdout clean: anything libraries print goes to stderr
	realOut := os.Stdout
	os.Stdout = os.Stderr
	out = bufio.NewWriter(realOut)
	for {
		line, err := in.ReadBytes('\n')
		if err != nil {
			break
		}
		var req pool.Request
		if err := json.Unmarshal(line, &req); err != nil {
			fmt.Fprintln(os.Stderr, "worker: bad request:", err)
			break
		}
		res, err := engines.Dispatch(env, req.Kind, req.Payload)
		resp := pool.Response{ID: req.ID}
		if err != nil {
			resp.Err = err.Error()
		} else {
			resp.Result, _ = json.Marshal(res)
		}
		env.CleanScratch()
		b, _ := json.Marshal(resp)
		out.Write(b)
		out.WriteByte('\n')
		out.Flush()
	}
	os.RemoveAll(scratch)
}

func runReplay(file string) int {
	b, err := os.ReadFile(file)
	if err != nil {
		fmt.Fprintln(os.Stderr, err)
		return 2
	}
	var f engines.Finding
	if err := json.Unmarshal(b, &f); err != nil {
		fmt.Fprintln(os.Stderr, err)
		return 2
	}
	p := newPool(1)
	found := false
	var raw interface{} = f.Job
	p.Map(f.Kind, []interface{}{raw}, func(i int, resp *pool.Response) {
		if resp.Err != "" {
			fmt.Println("infrastructure:", resp.Err)
			return
		}
		var g struct {
			Viol []engines.Violation `json:"viol"`
		}
		_ = json.Unmarshal(resp.Result, &g)
		for _, v := range g.Viol {
			fmt.Printf("%s %s\n  %s\n", v.Prop, v.Class, v.Detail)
			if v.Prop == f.Prop && v.Class == f.Class {
				found = true
			}
		}
	})
	if found {
		fmt.Printf("VIOLATION property=%s replay=%s\n", f.Prop, file)
		return 1
	}
	fmt.Println("not reproduced")
	return 0
}
