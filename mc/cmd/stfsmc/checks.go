package main

import (
	"fmt"
	"os"
	"time"

	"stfsmc/engines"
	"stfsmc/ops"
	"stfsmc/rig"
)

var cfgNone = rig.Config{RecordSize: 20}

type e1Plan struct {
	specs  []engines.E1Spec
	budget time.Duration
}

func e1Specs(prop, tier string) []engines.E1Spec {
	or := []string{prop}
	switch prop {
	case "C01", "C02", "C05", "C13":
		if tier == "quick" {
			return []engines.E1Spec{
				{Name: "A-small/none/rs20", Cfg: cfgNone, Alphabet: engines.SmallA(), Depth: 3, Oracles: or},
				{Name: "A-small/none/rs1", Cfg: rig.Config{RecordSize: 1}, Alphabet: engines.SmallA(), Depth: 2, Oracles: or},
			}
		}
		return []engines.E1Spec{
			{Name: "A-full/none/rs20", Cfg: cfgNone, Alphabet: engines.FullA(), Depth: 4, Oracles: or},
			{Name: "A-small/none/rs1", Cfg: rig.Config{RecordSize: 1}, Alphabet: engines.SmallA(), Depth: 3, Oracles: or},
			{Name: "A-small/none/rs3", Cfg: rig.Config{RecordSize: 3}, Alphabet: engines.SmallA(), Depth: 3, Oracles: or},
		}
	}
	switch prop {
	case "C04":
		if tier == "quick" {
			out := []engines.E1Spec{}
			for _, rs := range []int{1, 3, 20} {
				out = append(out, engines.E1Spec{Name: fmt.Sprintf("B/none/rs%d", rs), Cfg: rig.Config{RecordSize: rs}, Alphabet: engines.AlphabetB(false), Depth: 2, Oracles: or, Level: "archive"})
			}
			return out
		}
		out := []engines.E1Spec{}
		for _, rs := range []int{1, 2, 3, 7, 20} {
			out = append(out, engines.E1Spec{Name: fmt.Sprintf("B-full/none/rs%d", rs), Cfg: rig.Config{RecordSize: rs}, Alphabet: engines.AlphabetB(true), Depth: 3, Oracles: or, Level: "archive"})
		}
		out = append(out, engines.E1Spec{Name: "A-small/none/rs3", Cfg: rig.Config{RecordSize: 3}, Alphabet: engines.SmallA(), Depth: 3, Oracles: or})
		return out
	case "C07":
		if tier == "quick" {
			return []engines.E1Spec{
				{Name: "A-small/none/rs20", Cfg: cfgNone, Alphabet: engines.SmallA(), Depth: 2, Oracles: or},
				{Name: "B/none/rs3", Cfg: rig.Config{RecordSize: 3}, Alphabet: engines.AlphabetB(false), Depth: 2, Oracles: or, Level: "archive"},
			}
		}
		return []engines.E1Spec{
			{Name: "A-small/none/rs20", Cfg: cfgNone, Alphabet: engines.SmallA(), Depth: 3, Oracles: or, AllJ: true},
			{Name: "B-full/none/rs3", Cfg: rig.Config{RecordSize: 3}, Alphabet: engines.AlphabetB(true), Depth: 3, Oracles: or, Level: "archive", AllJ: true},
		}
	case "C14":
		type init struct {
			spec string
			l    int
		}
		inits := []init{{"hello", 5}, {"", 0}}
		flagSets := []int{os.O_RDONLY, os.O_WRONLY, os.O_RDWR, os.O_RDWR | os.O_APPEND, os.O_RDWR | os.O_TRUNC}
		caches := []string{"memory", "file"}
		depth := 2
		if tier != "quick" {
			depth = 4
			inits = append(inits, init{"T1100", 1100})
		}
		out := []engines.E1Spec{}
		for _, in := range inits {
			for _, fl := range flagSets {
				for _, wc := range caches {
					d := depth
					if in.l > 16 && d > 3 {
						d = 3
					}
					out = append(out, engines.E1Spec{Name: fmt.Sprintf("H/%q/%s/wc=%s", in.spec, ops.FlagString(fl), wc), Cfg: rig.Config{RecordSize: 1, WriteCache: wc}, Level: "handle",
						HInit: in.spec, HFlags: fl, Alphabet: engines.HandleAlphabet(in.l, fl&os.O_APPEND != 0), Depth: d, Oracles: or})
				}
			}
		}
		for _, wc := range caches {
			out = append(out, engines.E1Spec{Name: "H/missing/WRONLY|CREATE/wc=" + wc, Cfg: rig.Config{RecordSize: 1, WriteCache: wc}, Level: "handle",
				HInit: "<missing>", HFlags: os.O_WRONLY | os.O_CREATE, Alphabet: engines.HandleAlphabet(0, false), Depth: depth, Oracles: or})
		}
		if tier != "quick" {
			out = append(out, engines.E1Spec{Name: "H/hello/RDWR/gz+age+minisign", Cfg: rig.Config{RecordSize: 20, Compression: "gzip", Encryption: "age", Signature: "minisign"}, Level: "handle",
				HInit: "hello", HFlags: os.O_RDWR, Alphabet: engines.HandleAlphabet(5, false), Depth: 3, Oracles: or})
		}
		return out
	case "C12":
		names := engines.WNames
		out := []engines.E1Spec{}
		max, depth := 2, 1
		if tier != "quick" {
			max, depth = 3, 2
		}
		for i, setup := range engines.WSetups(names, max) {
			out = append(out, engines.E1Spec{Name: fmt.Sprintf("W%d/none/rs20", i), Cfg: cfgNone, Setup: setup, Alphabet: engines.WAlphabet(names), Depth: depth, Oracles: or})
		}
		return out
	}
	return nil
}

func runCheck(prop, tier string, seed int64, workers int) int {
	p := newPool(workers)
	level := "model_checking"
	rep, err := engines.NewReport(prop, tier, level, verifDir(), seed, p)
	if err != nil {
		fmt.Fprintln(os.Stderr, err)
		return 2
	}
	specs := e1Specs(prop, tier)
	if specs == nil {
		fmt.Fprintln(os.Stderr, "no check defined for", prop)
		return 2
	}
	budget := 4 * time.Minute
	if tier == "thorough" {
		budget = 25 * time.Minute
	}
	deadline := time.Now().Add(budget)
	states, trans, pruned := 0, 0, 0
	exhaustive := true
	per := []map[string]interface{}{}
	for _, sp := range specs {
		t0 := time.Now()
		st := engines.ExploreE1(p, sp, rep, deadline)
		if len(st.Harness) > 0 {
			fmt.Fprintf(os.Stderr, "HARNESS ERROR in %s: %v\n", sp.Name, st.Harness[0])
			return 2
		}
		states += st.States
		trans += st.Transitions
		pruned += st.Pruned
		exhaustive = exhaustive && st.Exhaustive
		per = append(per, map[string]interface{}{"name": sp.Name, "config": sp.Cfg.String(), "alphabet": len(sp.Alphabet), "depth_bound": sp.Depth,
			"complete_depth": st.MaxDepth, "states": st.States, "transitions": st.Transitions, "pruned_diverged": st.Pruned, "outcomes": st.Outcomes, "wall_s": time.Since(t0).Seconds()})
		fmt.Fprintf(os.Stderr, "[%s] %s: states=%d transitions=%d pruned=%d depth=%d/%d exhaustive=%v %.1fs\n", prop, sp.Name, st.States, st.Transitions, st.Pruned, st.MaxDepth, sp.Depth, st.Exhaustive, time.Since(t0).Seconds())
	}
	rep.Coverage["states"] = states
	rep.Coverage["transitions"] = trans
	rep.Coverage["traces_validated_against_impl"] = trans
	rep.Coverage["pruned_diverged"] = pruned
	rep.Coverage["exhaustive"] = exhaustive
	rep.Coverage["explorations"] = per
	rep.Coverage["rule"] = "breadth-first search over call histories; every transition = one fresh real STFS stack replaying the history under the cooperative scheduler, judged by the property's oracle in lock-step with the reference model; states merged by (model state, live index rows incl. tombstones with ranked positions, rebuilt rows, tail alignment)"
	rep.Assumptions = []string{"tape = regular file (no tape drive ioctls)", "SQLite and database/sql trusted", "names/contents from the stated alphabets only"}
	_ = ops.Op{}
	return rep.Finish()
}
