package main

import (
	"encoding/json"
	"fmt"
	"os"
	"os/exec"
	"path/filepath"
	"strings"
	"time"

	"stfsmc/engines"
	"stfsmc/ops"
	"stfsmc/pool"
	"stfsmc/rig"
)

var cfgNone = rig.Config{RecordSize: 20}

type e1Plan struct {
	specs  []engines.E1Spec
	budget time.Duration
}

func e1Specs(prop, tier string) []engines.E1Spec {
	or := []string{prop}
	switch prop {
	case "C01", "C02", "C05", "C13":
		gz := rig.Config{RecordSize: 20, Compression: "gzip", Encryption: "age", Signature: "minisign"}
		zs := rig.Config{RecordSize: 3, Compression: "zstandard", Encryption: "pgp", Signature: "pgp", WriteCache: "file"}
		specs := []engines.E1Spec{}
		if tier == "quick" {
			specs = []engines.E1Spec{
				{Name: "A-full/none/rs20", Cfg: cfgNone, Alphabet: engines.FullA(), Depth: 3, Oracles: or},
				{Name: "A-small/none/rs1", Cfg: rig.Config{RecordSize: 1}, Alphabet: engines.SmallA(), Depth: 3, Oracles: or},
				{Name: "A-small/gzip+age+minisign/rs20", Cfg: gz, Alphabet: engines.SmallA(), Depth: 2, Oracles: or},
				{Name: "N-names/none/rs20", Cfg: cfgNone, Alphabet: engines.NameAlphabet(), Depth: 2, Oracles: or},
			}
		} else {
			specs = []engines.E1Spec{
				{Name: "A-full/none/rs20", Cfg: cfgNone, Alphabet: engines.FullA(), Depth: 4, Oracles: or},
				{Name: "A-small/none/rs1", Cfg: rig.Config{RecordSize: 1}, Alphabet: engines.SmallA(), Depth: 4, Oracles: or},
				{Name: "A-small/none/rs3/wc=file", Cfg: rig.Config{RecordSize: 3, WriteCache: "file"}, Alphabet: engines.SmallA(), Depth: 3, Oracles: or},
				{Name: "A-small/gzip+age+minisign/rs20", Cfg: gz, Alphabet: engines.SmallA(), Depth: 3, Oracles: or},
				{Name: "A-small/zstandard+pgp+pgp/rs3", Cfg: zs, Alphabet: engines.SmallA(), Depth: 2, Oracles: or},
				{Name: "N-names/none/rs20", Cfg: cfgNone, Alphabet: engines.NameAlphabet(), Depth: 3, Oracles: or},
			}
		}
		kd := 4
		if tier != "quick" {
			kd = 5
		}
		specs = append(specs, engines.E1Spec{Name: "K-kind-reuse/none/rs20", Cfg: cfgNone, Alphabet: engines.KindReuseAlphabet(), Depth: kd, Oracles: or})
		// names that end in the suffix the pipeline adds to content records
		specs = append(specs, engines.E1Spec{Name: "X-suffix/gzip/rs20", Cfg: rig.Config{RecordSize: 20, Compression: "gzip"}, Alphabet: engines.SuffixAlphabet(".gz"), Depth: 3, Oracles: or})
		if tier != "quick" {
			specs = append(specs, engines.E1Spec{Name: "X-suffix/zstandard+age/rs20", Cfg: rig.Config{RecordSize: 20, Compression: "zstandard", Encryption: "age"}, Alphabet: engines.SuffixAlphabet(".zst.age"), Depth: 3, Oracles: or},
				engines.E1Spec{Name: "X-suffix/lz4/rs1", Cfg: rig.Config{RecordSize: 1, Compression: "lz4"}, Alphabet: engines.SuffixAlphabet(".lz4"), Depth: 3, Oracles: or})
		}
		specs = append(specs, engines.E1Spec{Name: "M-bigmove/none/rs20", Cfg: cfgNone, Setup: engines.BigMoveSetup(), Alphabet: engines.BigMoveAlphabet(), Depth: map[bool]int{true: 3, false: 4}[tier == "quick"], Oracles: or})
		if prop == "C02" {
			d := 2
			if tier != "quick" {
				d = 3
			}
			specs = append(specs,
				engines.E1Spec{Name: "flags-on-existing/none/rs20", Cfg: cfgNone, Setup: []ops.Op{{K: "put", P: "/f", C: "hello"}}, Alphabet: append(engines.FlagAlphabet("/f"), ops.Op{K: "remove", P: "/f"}), Depth: d, Oracles: or},
				engines.E1Spec{Name: "flags-on-missing/none/rs20", Cfg: cfgNone, Setup: []ops.Op{{K: "mkdir", P: "/d"}}, Alphabet: append(engines.FlagAlphabet("/d/f"), ops.Op{K: "remove", P: "/d/f"}, ops.Op{K: "openw", P: "/nodir/f", N: os.O_RDWR | os.O_CREATE}), Depth: d, Oracles: or})
		}
		if prop == "C02" {
			// populated sibling directories whose names are neighbours for SQL LIKE (wildcards, ASCII case) or share a prefix
			pairs := [][]string{{"a", "A"}, {"ab", "a_"}, {"a%", "a%b"}}
			if tier != "quick" {
				pairs = append(pairs, []string{"a_", "a_c"}, []string{"ab", "AB"}, []string{"a b", "a."}, []string{"ä", "a"})
			}
			for _, pr := range pairs {
				setups := engines.WSetups(pr, 2)
				specs = append(specs, engines.E1Spec{Name: fmt.Sprintf("W%v/none/rs20", pr), Cfg: cfgNone, Setup: setups[len(setups)-1], Alphabet: engines.WAlphabet(append(append([]string{}, pr...), "zz")), Depth: map[bool]int{true: 1, false: 2}[tier == "quick"], Oracles: or})
			}
		}
		if prop == "C05" {
			specs = append(specs, engines.E1Spec{Name: "A-small/none/rs20/overwrite-manager", Cfg: rig.Config{RecordSize: 20, Overwrite: true}, Alphabet: engines.SmallA(), Depth: 3, Oracles: or})
		}
		if prop == "C01" || prop == "C05" {
			d := 3
			if tier != "quick" {
				d = 5
			}
			// open handles across other calls (no reference model: live vs reopen vs rebuild, and tape invariants)
			specs = append(specs, engines.E1Spec{Name: "H-handles/none/rs20", Cfg: cfgNone, Alphabet: engines.HandleMixAlphabet(), Depth: d, Oracles: or, Level: "raw"})
			b := 2
			if tier != "quick" {
				b = 3
			}
			specs = append(specs, engines.E1Spec{Name: "B-archive/none/rs3", Cfg: rig.Config{RecordSize: 3}, Alphabet: engines.AlphabetB(tier != "quick"), Depth: b, Oracles: or, Level: "archive"})
			if prop == "C01" {
				// symbolic links (quantifier of C01 names Symlink; "link targets" are part of the visible tree)
				specs = append(specs, engines.E1Spec{Name: "L-links/none/rs20", Cfg: cfgNone, Setup: engines.LinkSetup(), Alphabet: engines.LinkAlphabet(), Depth: map[bool]int{true: 3, false: 4}[tier == "quick"], Oracles: or, Level: "raw"})
				// histories that start on a tape STFS did not write (a standard tar archive): its members carry no STFS PAX records,
				// so every record appended for them is derived from an index row of a different provenance (round-6 seed r6-C01:
				// the in-memory form of a metadata-only record for such a member differed from its on-tape form)
				fa := []ops.Op{{K: "chmod", P: "/d1/f0", N: 0o600}, {K: "chown", P: "/d1/f0"}, {K: "chtimes", P: "/d1/f0"}, {K: "rename", P: "/d1/f0", Q: "/d1/fm"}, {K: "put", P: "/d1/f0", C: "overwritten"},
					{K: "chmod", P: "/f0", N: 0o600}, {K: "chmod", P: "/d1", N: 0o700}, {K: "rename", P: "/d1", Q: "/dm"}, {K: "remove", P: "/d1/f0"}, {K: "put", P: "/new", C: "added"}}
				ff := []engines.ForeignSpec{{Format: "pax", RootStyle: "./", Shape: "(f(f))", NameClass: "short"}}
				fd := 2
				if tier != "quick" {
					fd = 3
					ff = nil
					for _, format := range []string{"ustar", "pax", "gnu"} {
						for _, style := range []string{"./", "/", "top/"} {
							ff = append(ff, engines.ForeignSpec{Format: format, RootStyle: style, Shape: "(f(f))", NameClass: "short"})
						}
					}
				}
				for i := range ff {
					specs = append(specs, engines.E1Spec{Name: fmt.Sprintf("F-foreign-start/%s/rs20", ff[i]), Cfg: cfgNone, Foreign: &ff[i], Alphabet: fa, Depth: fd, Oracles: or})
				}
			}
		}
		if prop == "C13" {
			max := 2
			if tier != "quick" {
				max = 3
			}
			for i, setup := range engines.WSetups(engines.WNames, max) {
				if tier == "quick" && i%3 != 0 {
					continue
				}
				specs = append(specs, engines.E1Spec{Name: fmt.Sprintf("W%d-names/none/rs20", i), Cfg: cfgNone, Setup: setup, Alphabet: engines.WAlphabet(engines.WNames)[:20], Depth: 1, Oracles: or})
			}
			specs = append(specs, engines.E1Spec{Name: "L-links/none/rs20", Cfg: cfgNone, Setup: engines.LinkSetup(), Alphabet: engines.LinkAlphabet(), Depth: map[bool]int{true: 3, false: 4}[tier == "quick"], Oracles: or, Level: "raw"})
			specs = append(specs, engines.E1Spec{Name: "S-stale-handle/none/rs20", Cfg: cfgNone, Setup: engines.StaleHandleSetup(), Alphabet: engines.StaleHandleAlphabet(), Depth: map[bool]int{true: 3, false: 4}[tier == "quick"], Oracles: or, Level: "raw"})
			specs = append(specs, engines.E1Spec{Name: "T-deep/none/rs20", Cfg: cfgNone, Alphabet: engines.DeepAlphabet(), Depth: map[bool]int{true: 3, false: 4}[tier == "quick"], Oracles: or})
		}
		return specs
	}
	switch prop {
	case "C04":
		if tier == "quick" {
			out := []engines.E1Spec{}
			for _, rs := range []int{1, 3, 20} {
				out = append(out, engines.E1Spec{Name: fmt.Sprintf("B/none/rs%d", rs), Cfg: rig.Config{RecordSize: rs}, Alphabet: engines.AlphabetB(false), Depth: 3, Oracles: or, Level: "archive"})
			}
			// stored size != plain size: batched members behind a compressed / encrypted payload
			out = append(out, engines.E1Spec{Name: "B/gzip/rs3", Cfg: rig.Config{RecordSize: 3, Compression: "gzip"}, Alphabet: engines.AlphabetB(false), Depth: 2, Oracles: or, Level: "archive"})
			out = append(out, engines.E1Spec{Name: "B/zstandard+age+minisign/rs20", Cfg: rig.Config{RecordSize: 20, Compression: "zstandard", Encryption: "age", Signature: "minisign"}, Alphabet: engines.AlphabetB(false), Depth: 2, Oracles: or, Level: "archive"})
			return out
		}
		out := []engines.E1Spec{}
		for _, rs := range []int{1, 2, 3, 7, 20} {
			out = append(out, engines.E1Spec{Name: fmt.Sprintf("B-full/none/rs%d", rs), Cfg: rig.Config{RecordSize: rs}, Alphabet: engines.AlphabetB(true), Depth: 3, Oracles: or, Level: "archive"})
		}
		out = append(out, engines.E1Spec{Name: "A-small/none/rs3", Cfg: rig.Config{RecordSize: 3}, Alphabet: engines.SmallA(), Depth: 3, Oracles: or})
		for _, c := range []rig.Config{{RecordSize: 3, Compression: "gzip"}, {RecordSize: 1, Compression: "lz4", Encryption: "pgp"}, {RecordSize: 20, Compression: "zstandard", Encryption: "age", Signature: "minisign"}} {
			out = append(out, engines.E1Spec{Name: "B-full/" + c.String(), Cfg: c, Alphabet: engines.AlphabetB(true), Depth: 2, Oracles: or, Level: "archive"})
		}
		return out
	case "C07":
		if tier == "quick" {
			return []engines.E1Spec{
				{Name: "A-small/none/rs20", Cfg: cfgNone, Alphabet: engines.SmallA(), Depth: 3, Oracles: or, AllJ: true},
				{Name: "B/none/rs3", Cfg: rig.Config{RecordSize: 3}, Alphabet: engines.AlphabetB(false), Depth: 2, Oracles: or, Level: "archive", AllJ: true},
				{Name: "K-kind-reuse/none/rs20", Cfg: cfgNone, Alphabet: engines.KindReuseAlphabet(), Depth: 4, Oracles: or, AllJ: true},
			}
		}
		return []engines.E1Spec{
			{Name: "A-full/none/rs20", Cfg: cfgNone, Alphabet: engines.FullA(), Depth: 3, Oracles: or, AllJ: true},
			{Name: "A-small/none/rs1", Cfg: rig.Config{RecordSize: 1}, Alphabet: engines.SmallA(), Depth: 4, Oracles: or, AllJ: true},
			{Name: "B-full/none/rs3", Cfg: rig.Config{RecordSize: 3}, Alphabet: engines.AlphabetB(true), Depth: 3, Oracles: or, Level: "archive", AllJ: true},
			{Name: "K-kind-reuse/none/rs20", Cfg: cfgNone, Alphabet: engines.KindReuseAlphabet(), Depth: 5, Oracles: or, AllJ: true},
		}
	case "C14":
		type init struct {
			spec string
			l    int
		}
		inits := []init{{"hello", 5}, {"", 0}}
		flagSets := []int{os.O_RDONLY, os.O_WRONLY, os.O_RDWR, os.O_RDWR | os.O_APPEND, os.O_RDWR | os.O_TRUNC, os.O_WRONLY | os.O_APPEND}
		caches := []string{"memory", "file"}
		depth := 3
		if tier != "quick" {
			depth = 4
			inits = append(inits, init{"T1100", 1100})
		}
		out := []engines.E1Spec{}
		for _, in := range inits {
			for _, fl := range flagSets {
				for _, wc := range caches {
					d := depth
					if in.l > 16 && d > 3 {
						d = 3
					}
					out = append(out, engines.E1Spec{Name: fmt.Sprintf("H/%q/%s/wc=%s", in.spec, ops.FlagString(fl), wc), Cfg: rig.Config{RecordSize: 1, WriteCache: wc}, Level: "handle",
						HInit: in.spec, HFlags: fl, Alphabet: engines.HandleAlphabet(in.l, fl&os.O_APPEND != 0), Depth: d, Oracles: or})
				}
			}
		}
		for _, wc := range caches {
			out = append(out, engines.E1Spec{Name: "H/missing/WRONLY|CREATE/wc=" + wc, Cfg: rig.Config{RecordSize: 1, WriteCache: wc}, Level: "handle",
				HInit: "<missing>", HFlags: os.O_WRONLY | os.O_CREATE, Alphabet: engines.HandleAlphabet(0, false), Depth: depth, Oracles: or})
		}
		// write-only handles of an instance constructed with writePermImpliesReadPerm (what `serve ftp` does) can also read
		for _, fl := range []int{os.O_WRONLY, os.O_WRONLY | os.O_APPEND} {
			out = append(out, engines.E1Spec{Name: fmt.Sprintf("H/%q/%s/wc=memory/wpir", "hello", ops.FlagString(fl)), Cfg: rig.Config{RecordSize: 1, WriteCache: "memory", WPIR: true}, Level: "handle",
				HInit: "hello", HFlags: fl, Alphabet: engines.HandleAlphabet(5, fl&os.O_APPEND != 0), Depth: depth, Oracles: or})
		}
		// a pipeline whose encoding of an empty payload is not empty (truncating to nothing, empty rewrites)
		gzd := 2
		if tier != "quick" {
			gzd = 3
		}
		out = append(out, engines.E1Spec{Name: "H/hello/RDWR/gzip/wc=memory", Cfg: rig.Config{RecordSize: 1, Compression: "gzip"}, Level: "handle",
			HInit: "hello", HFlags: os.O_RDWR, Alphabet: engines.HandleAlphabet(5, false), Depth: gzd, Oracles: or},
			engines.E1Spec{Name: "H/hello/RDWR|TRUNC/lz4+age/wc=file", Cfg: rig.Config{RecordSize: 1, Compression: "lz4", Encryption: "age", WriteCache: "file"}, Level: "handle",
				HInit: "hello", HFlags: os.O_RDWR | os.O_TRUNC, Alphabet: engines.HandleAlphabet(5, false), Depth: gzd, Oracles: or})
		if tier != "quick" {
			out = append(out, engines.E1Spec{Name: "H/hello/RDWR/gz+age+minisign", Cfg: rig.Config{RecordSize: 20, Compression: "gzip", Encryption: "age", Signature: "minisign"}, Level: "handle",
				HInit: "hello", HFlags: os.O_RDWR, Alphabet: engines.HandleAlphabet(5, false), Depth: 3, Oracles: or})
		}
		return out
	case "C17":
		out := []engines.E1Spec{}
		shapes := engines.AllShapes()
		follow := []ops.Op{{K: "put", P: "/new", C: "added"}, {K: "mkdir", P: "/newdir"}, {K: "put", P: "/d0/added", C: "T513:1"}, {K: "remove", P: "/f0"}, {K: "rename", P: "/f0", Q: "/renamed"},
			{K: "removeall", P: "/d0"}, {K: "chmod", P: "/f0", N: 0o600}, {K: "put", P: "/f0", C: "overwritten"}, {K: "rename", P: "/d0", Q: "/dmoved"},
			// metadata-only updates and a rename of original members that have content (f0 is the empty one)
			{K: "chmod", P: "/d1/f0", N: 0o600}, {K: "chtimes", P: "/f1"}, {K: "rename", P: "/d1/f0", Q: "/d1/fmoved"}, {K: "chmod", P: "/f1", N: 0o600}}
		for si, sh := range shapes {
			for _, format := range []string{"ustar", "pax", "gnu"} {
				for _, style := range []string{"./", "/", "top/"} {
					for _, nc := range []string{"short", "c101", "p260", "dot"} {
						for _, rs := range []int{20, 1} {
							depth := 1
							if tier == "quick" {
								// quick: small shapes, short names everywhere, long names only for one shape, rs 20 only
								if len(sh) > 6 || rs != 20 || (nc != "short" && sh != "(f(f))") {
									continue
								}
							} else {
								if nc != "short" && si%8 != 3 {
									continue // long-name classes on every 8th shape
								}
								if rs == 1 && si%4 != 1 {
									continue
								}
								if len(sh) <= 8 {
									depth = 2
								}
							}
							f := engines.ForeignSpec{Format: format, RootStyle: style, Shape: sh, NameClass: nc}
							alpha := follow
							if nc != "short" {
								alpha = follow[:2]
							}
							if nc == "dot" {
								// additions whose names are the hidden members' names without the dots
								alpha = append(append([]ops.Op{}, follow[:2]...), ops.Op{K: "put", P: "/f0", C: "sibling without the dot"}, ops.Op{K: "put", P: "/f1", C: "sibling without the dot"}, ops.Op{K: "mkdir", P: "/d1"}, ops.Op{K: "mkdir", P: "/d0"})
							}
							out = append(out, engines.E1Spec{Name: fmt.Sprintf("T/%s/rs%d", f, rs), Cfg: rig.Config{RecordSize: rs}, Foreign: &f, Alphabet: alpha, Depth: depth, Oracles: []string{"C17", "C01x"}})
							if sh == "(f(f))" && nc == "short" && rs == 20 {
								// deeper follow-ups on one shape per format and root style: add / remove / re-add next to foreign members,
								// also after the index has been rebuilt from the tape
								deep := []ops.Op{{K: "put", P: "/new", C: "added"}, {K: "remove", P: "/new"}, {K: "put", P: "/d1/added", C: "T513:1"}, {K: "remove", P: "/d1/added"}, {K: "rebuild"},
									{K: "reindex"}, {K: "rename", P: "/d1", Q: "/dmoved"}, {K: "removeall", P: "/d1"}, {K: "put", P: "/d1/added2", C: "x"}}
								d := 3
								if tier != "quick" {
									d = 4
								}
								out = append(out, engines.E1Spec{Name: fmt.Sprintf("T-deep/%s/rs%d", f, rs), Cfg: rig.Config{RecordSize: rs}, Foreign: &f, Alphabet: deep, Depth: d, Oracles: []string{"C17", "C01x"}})
							}
						}
					}
				}
			}
		}
		return out
	case "C15":
		out := []engines.E1Spec{}
		depth := 2
		if tier != "quick" {
			depth = 4
		}
		for si, setup := range engines.ROSetups() {
			for _, nowrite := range []bool{false, true} {
				for _, absent := range []bool{false, true} {
					if tier == "quick" && si > 0 && absent {
						continue
					}
					out = append(out, engines.E1Spec{Name: fmt.Sprintf("RO/setup%d/nowrite=%v/absent-index=%v", si, nowrite, absent), Cfg: rig.Config{RecordSize: 20, ReadOnly: true, NoWriteOps: nowrite},
						Setup: setup, Alphabet: engines.ROAlphabet(), Depth: depth, Oracles: or, Level: "ro", AbsentIndex: absent})
					if !absent {
						// the construction `serve ftp --read-only` uses: write permission implies read permission
						out = append(out, engines.E1Spec{Name: fmt.Sprintf("RO/setup%d/nowrite=%v/absent-index=%v/wpir", si, nowrite, absent), Cfg: rig.Config{RecordSize: 20, ReadOnly: true, NoWriteOps: nowrite, WPIR: true},
							Setup: setup, Alphabet: engines.ROAlphabet(), Depth: depth, Oracles: or, Level: "ro", AbsentIndex: absent})
					}
					if si < 2 {
						// first open over a tape whose tail is torn (the rebuild fails part-way): cut inside the trailer, inside the
						// last record's payload/padding and inside its header
						for _, torn := range []int{512, 1030, 1600, 2100} {
							if tier == "quick" && torn != 1030 && torn != 1600 {
								continue
							}
							for _, ab := range []bool{true, false} {
								out = append(out, engines.E1Spec{Name: fmt.Sprintf("RO/setup%d/nowrite=%v/absent-index=%v/torn=%d", si, nowrite, ab, torn), Cfg: rig.Config{RecordSize: 20, ReadOnly: true, NoWriteOps: nowrite},
									Setup: setup, Alphabet: engines.ROAlphabet()[:26], Depth: 1, Oracles: or, Level: "ro", AbsentIndex: ab, TornBytes: torn})
							}
						}
					}
				}
			}
		}
		return out
	case "C09":
		out := []engines.E1Spec{}
		type pl struct{ enc, sig, comp string }
		pls := []pl{}
		for _, e := range []string{"age", "pgp"} {
			for _, s := range []string{"", "minisign", "pgp"} {
				for _, c := range []string{"", "gzip", "zstandard"} {
					pls = append(pls, pl{e, s, c})
				}
			}
		}
		for i, x := range pls {
			depth := 2
			if tier != "quick" {
				depth = 4
			} else if i == 0 || i == 13 {
				depth = 3
			}
			out = append(out, engines.E1Spec{Name: fmt.Sprintf("M/enc=%s,sig=%s,comp=%s", x.enc, x.sig, x.comp), Cfg: rig.Config{Encryption: x.enc, Signature: x.sig, Compression: x.comp, RecordSize: 20},
				Alphabet: engines.MarkerAlphabet(), Depth: depth, Oracles: or, Level: "raw"})
			// the same calls on a populated tree (a directory with several descendants, a file)
			pd := 1
			if tier != "quick" {
				pd = 2
			}
			out = append(out, engines.E1Spec{Name: fmt.Sprintf("M-populated/enc=%s,sig=%s,comp=%s", x.enc, x.sig, x.comp), Cfg: rig.Config{Encryption: x.enc, Signature: x.sig, Compression: x.comp, RecordSize: 20},
				Setup: engines.MarkerSetup(), Alphabet: engines.MarkerAlphabet(), Depth: pd, Oracles: or, Level: "raw"})
		}
		return out
	case "C12":
		names := engines.WNames
		out := []engines.E1Spec{}
		max := 2
		if tier != "quick" {
			max = 3
		}
		subsets := engines.WSubsets(names, max)
		setups := engines.WSetups(names, max)
		// thorough: every initial state with up to three populated directories at depth 1 first (cheap, always completes),
		// then the initial states with one or two directories at depth 2 as far as the budget allows
		for _, depth := range []int{1, 2} {
			if depth == 2 && tier == "quick" {
				break
			}
			for i, setup := range setups {
				if depth == 2 && len(subsets[i]) > 2 {
					continue
				}
				// the calls range over the names that exist in this initial state plus two that do not (one of them a name that a
				// LIKE pattern of an existing name would match)
				present := append([]string{}, subsets[i]...)
				al := engines.WAlphabet(append(present, "zz", "aXb"))
				out = append(out, engines.E1Spec{Name: fmt.Sprintf("W%d%v/none/rs20/depth%d", i, subsets[i], depth), Cfg: cfgNone, Setup: setup, Alphabet: al, Depth: depth, Oracles: or})
				if depth == 1 && (tier != "quick" || i%2 == 1) {
					// the same calls when a child of every directory was removed individually before (a tombstone below the
					// directory, created before its still-live siblings)
					ts := append([]ops.Op{}, setup...)
					for _, w := range subsets[i] {
						ts = append(ts, ops.Op{K: "remove", P: "/" + w + "/x"})
					}
					out = append(out, engines.E1Spec{Name: fmt.Sprintf("W%d%v/none/rs20/child-removed-before/depth1", i, subsets[i]), Cfg: cfgNone, Setup: ts, Alphabet: al, Depth: 1, Oracles: or})
				}
				if depth == 1 && (tier != "quick" || i%2 == 0) {
					// the same calls on an instance whose index was rebuilt from the tape (names stored relative to the root)
					rs := append(append([]ops.Op{}, setup...), ops.Op{K: "rebuild"})
					out = append(out, engines.E1Spec{Name: fmt.Sprintf("W%d%v/none/rs20/rebuilt-index/depth1", i, subsets[i]), Cfg: cfgNone, Setup: rs, Alphabet: al, Depth: 1, Oracles: or})
				}
			}
		}
		return out
	}
	return nil
}

func runCheck(prop, tier string, seed int64, workers int) int {
	p := newPool(workers)
	level := "model_checking"
	rep, err := engines.NewReport(prop, tier, level, verifDir(), seed, p)
	if err != nil {
		fmt.Fprintln(os.Stderr, err)
		return 2
	}
	if prop == "C10" {
		return runC10(rep, p, tier)
	}
	if prop == "C11" {
		return runC11(rep, p, tier)
	}
	if prop == "C08" {
		return runC08(rep, p, tier)
	}
	if prop == "C18" {
		return runC18(rep, p, tier)
	}
	if prop == "C03" {
		return runC03(rep, p, tier)
	}
	if prop == "C06" || prop == "C16" {
		return runE2(rep, p, prop, tier)
	}
	specs := e1Specs(prop, tier)
	// development aid for trial runs on a scratch checkout (VERIF_SRC sets VERIF_OUT_DIR, so /verif/evidence is never written
	// from a narrowed run): VERIF_DEV_SPEC=<substring> keeps only the explorations whose name contains it
	if f := os.Getenv("VERIF_DEV_SPEC"); f != "" && os.Getenv("VERIF_OUT_DIR") != "" {
		kept := []engines.E1Spec{}
		for _, sp := range specs {
			if strings.Contains(sp.Name, f) {
				kept = append(kept, sp)
			}
		}
		specs = kept
	}
	if specs == nil {
		fmt.Fprintln(os.Stderr, "no check defined for", prop)
		return 2
	}
	budget := 6 * time.Minute
	if tier == "thorough" {
		budget = 25 * time.Minute
		if prop == "C12" {
			budget = 40 * time.Minute
		}
	}
	deadline := time.Now().Add(budget)
	states, trans, pruned := 0, 0, 0
	exhaustive := true
	per := []map[string]interface{}{}
	for _, sp := range specs {
		t0 := time.Now()
		st := engines.ExploreE1(p, sp, rep, deadline)
		if len(st.Harness) > 0 {
			fmt.Fprintf(os.Stderr, "HARNESS ERROR in %s: %v\n", sp.Name, st.Harness[0])
			return 2
		}
		states += st.States
		trans += st.Transitions
		pruned += st.Pruned
		exhaustive = exhaustive && st.Exhaustive
		per = append(per, map[string]interface{}{"name": sp.Name, "config": sp.Cfg.String(), "alphabet": len(sp.Alphabet), "depth_bound": sp.Depth,
			"complete_depth": st.MaxDepth, "states": st.States, "transitions": st.Transitions, "pruned_diverged": st.Pruned, "outcomes": st.Outcomes, "wall_s": time.Since(t0).Seconds()})
		fmt.Fprintf(os.Stderr, "[%s] %s: states=%d transitions=%d pruned=%d depth=%d/%d exhaustive=%v %.1fs\n", prop, sp.Name, st.States, st.Transitions, st.Pruned, st.MaxDepth, sp.Depth, st.Exhaustive, time.Since(t0).Seconds())
	}
	if prop == "C13" {
		// "at all times": the namespace must also be a well-formed tree after concurrent callers. Every schedule (within the
		// preemption bound) of the parent-vs-child conflict scenarios is executed; the final index rows are compared with
		// the tree reached from the root.
		scns := engines.C13Scenarios()
		bounds := []int{0, 1, 2}
		if tier != "quick" {
			bounds = []int{0, 1, 2, 3}
		}
		cdl := time.Now().Add(3 * time.Minute)
		if tier != "quick" {
			cdl = time.Now().Add(12 * time.Minute)
		}
		conc := []map[string]interface{}{}
		schedules, steps := 0, 0
		for _, seams := range []bool{false, true} {
			for _, b := range bounds {
				if seams && b > 1 && tier == "quick" {
					continue
				}
				t0 := time.Now()
				pr := runSchedulePlan(rep, p, "C13", scns, seams, b, cdl)
				if pr.harness != "" {
					fmt.Fprintln(os.Stderr, "HARNESS ERROR:", pr.harness)
					return 2
				}
				exhaustive = exhaustive && pr.exhaustive
				schedules += pr.execs
				steps += pr.steps
				conc = append(conc, pr.per...)
				fmt.Fprintf(os.Stderr, "[C13] concurrent callers seams=%v bound=%d: scenarios=%d completed=%d schedules=%d %.1fs\n", seams, b, len(scns), pr.completed, pr.execs, time.Since(t0).Seconds())
			}
		}
		trans += schedules
		rep.Coverage["concurrent_callers"] = map[string]interface{}{"schedules": schedules, "scheduling_steps": steps, "explorations": conc,
			"rule": "stateless depth-first search over the schedules of two client threads (one removes/renames a directory, the other creates below it, or both create) on one real fs.STFS with iterative preemption bounding; after every complete schedule the live index rows are compared with the tree reached by listing from the root (orphans, entries below non-directories, unreachable and phantom entries)"}
	}
	rep.Coverage["states"] = states
	rep.Coverage["transitions"] = trans
	rep.Coverage["traces_validated_against_impl"] = trans
	rep.Coverage["pruned_diverged"] = pruned
	rep.Coverage["exhaustive"] = exhaustive
	rep.Coverage["explorations"] = per
	rep.Coverage["rule"] = "breadth-first search over call histories; every transition = one fresh real STFS stack replaying the history under the cooperative scheduler, judged by the property's oracle in lock-step with the reference model; states merged by (model state, live index rows incl. tombstones with ranked positions, rebuilt rows, tail alignment)"
	rep.Assumptions = []string{"tape = regular file (no tape drive ioctls)", "SQLite and database/sql trusted", "names/contents from the stated alphabets only"}
	_ = ops.Op{}
	return rep.Finish()
}

func runC10(rep *engines.Report, p *pool.Pool, tier string) int {
	rep.Level = "fault_enumeration"
	// rejected calls include an unsupported compression level: every write is refused after the drive has been acquired
	badLevel := rig.Config{RecordSize: 20, Compression: "gzip", Level: "no-such-level"}
	specs := []engines.E3Spec{{Name: "F/none/rs20", Cfg: cfgNone, Alphabet: engines.FaultAlphabet(false), Finals: engines.InitFinals(), Depth: 4},
		{Name: "F/gzip+unsupported-level/rs20", Cfg: badLevel, Alphabet: engines.FaultAlphabet(false), Depth: 2}}
	budget := 6 * time.Minute
	if tier != "quick" {
		specs = []engines.E3Spec{
			{Name: "F/none/rs20", Cfg: cfgNone, Alphabet: engines.FaultAlphabet(false), Finals: engines.InitFinals(), Depth: 4},
			{Name: "F-full/none/rs20", Cfg: cfgNone, Alphabet: engines.FaultAlphabet(true), Finals: engines.InitFinals(), Depth: 3},
			{Name: "F/none/rs1/wc=file", Cfg: rig.Config{RecordSize: 1, WriteCache: "file"}, Alphabet: engines.FaultAlphabet(false), Depth: 4},
			{Name: "F/gzip+age+minisign/rs1/wc=file", Cfg: rig.Config{RecordSize: 1, Compression: "gzip", Encryption: "age", Signature: "minisign", WriteCache: "file"}, Alphabet: engines.FaultAlphabet(false), Finals: engines.InitFinals(), Depth: 2},
			{Name: "F/gzip+unsupported-level/rs20", Cfg: badLevel, Alphabet: engines.FaultAlphabet(false), Depth: 3},
		}
		budget = 25 * time.Minute
	}
	deadline := time.Now().Add(budget)
	evals, fired := 0, 0
	distinct := map[string]bool{}
	exhaustive := true
	per := []map[string]interface{}{}
	for _, sp := range specs {
		t0 := time.Now()
		st := engines.ExploreE3(p, sp, rep, deadline)
		if len(st.Harness) > 0 {
			fmt.Fprintf(os.Stderr, "HARNESS ERROR in %s: %v\n", sp.Name, st.Harness[0])
			return 2
		}
		evals += st.DryRuns + st.Faulted
		fired += st.Fired
		for k := range st.Distinct {
			distinct[k] = true
		}
		exhaustive = exhaustive && st.Exhaustive
		per = append(per, map[string]interface{}{"name": sp.Name, "config": sp.Cfg.String(), "alphabet": len(sp.Alphabet), "history_length": sp.Depth, "prefix_states": st.Prefixes,
			"fault_free_runs": st.DryRuns, "faulted_runs": st.Faulted, "faults_fired": st.Fired, "wall_s": time.Since(t0).Seconds()})
		fmt.Fprintf(os.Stderr, "[C10] %s: prefixes=%d dry=%d faulted=%d fired=%d exhaustive=%v %.1fs\n", sp.Name, st.Prefixes, st.DryRuns, st.Faulted, st.Fired, st.Exhaustive, time.Since(t0).Seconds())
	}
	rep.Coverage["evaluations"] = evals
	rep.Coverage["distinct_nontrivial"] = len(distinct)
	rep.Coverage["faults_fired"] = fired
	rep.Coverage["exhaustive"] = exhaustive
	rep.Coverage["explorations"] = per
	rep.Coverage["rule"] = "for every state-merged history h (|h| < bound) and every call c of the alphabet: one fault-free run of h.c counting the events c reaches at each seam (drive write/read/seek, open/close of the drive, every index-store method, write-cache calls), then one run per (seam, k <= count) with the k-th event failing (drive writes also as short writes; drive opens fail for real), followed by a probe (Mkdir+Stat+Create/Write/Close). distinct_nontrivial = distinct (call kind, seam, mode) whose fault actually fired. Hangs are decided by the cooperative scheduler (no enabled thread), not by timeouts."
	rep.Assumptions = []string{"tape = regular file", "single fault per run", "SQLite trusted; index-store faults are opaque errors injected at the MetadataPersister interface"}
	return rep.Finish()
}

// histories whose final tapes are cut: hand-built long ones + every state of a small breadth-first exploration
func cutHistories(p *pool.Pool, depth int) ([][]ops.Op, error) {
	silent := &engines.Report{Prop: "none", Findings: map[string]*engines.Finding{}, Coverage: map[string]interface{}{}}
	e1 := engines.ExploreE1(p, engines.E1Spec{Name: "cut-histories", Cfg: cfgNone, Alphabet: engines.SmallA(), Depth: depth}, silent, time.Time{})
	if len(e1.Harness) > 0 {
		return nil, fmt.Errorf("%s", e1.Harness[0])
	}
	return append(engines.LongHistories(), e1.Reps...), nil
}

func runE2(rep *engines.Report, p *pool.Pool, prop, tier string) int {
	rep.Level = "fault_enumeration"
	depth := 1
	if tier != "quick" {
		depth = 2
	}
	hists, err := cutHistories(p, depth)
	if err != nil {
		fmt.Fprintln(os.Stderr, "HARNESS ERROR:", err)
		return 2
	}
	policy, shards := "quick", 2
	budget := 6 * time.Minute
	if tier != "quick" {
		policy, shards = "all", 48
		budget = 25 * time.Minute
	}
	specs := []engines.E2Spec{
		{Name: "afero/none/rs20", Prop: prop, Cfg: cfgNone, Hists: hists, Policy: policy, NShards: shards},
		{Name: "archive/none/rs3", Prop: prop, Cfg: rig.Config{RecordSize: 3}, Level: "raw", Hists: engines.ArchiveHistories(), Policy: policy, NShards: shards},
	}
	if tier != "quick" {
		specs = append(specs, engines.E2Spec{Name: "long/none/rs1", Prop: prop, Cfg: rig.Config{RecordSize: 1}, Hists: engines.LongHistories(), Policy: policy, NShards: shards})
	}
	if prop == "C16" {
		for i := range specs {
			specs[i].Indexes = []string{"absent", "current", "stale"}
			if tier != "quick" {
				specs[i].Policy = "quick" // every byte x three index variants is out of budget; cut classes stay the same
				specs[i].NShards = 4
			}
		}
	}
	deadline := time.Now().Add(budget)
	evals := 0
	distinct := map[string]bool{}
	exhaustive := true
	per := []map[string]interface{}{}
	for _, sp := range specs {
		t0 := time.Now()
		st := engines.ExploreE2(p, sp, rep, deadline)
		if len(st.Harness) > 0 {
			fmt.Fprintf(os.Stderr, "HARNESS ERROR in %s: %v\n", sp.Name, st.Harness[0])
			return 2
		}
		evals += st.Evals
		for d := range st.Distinct {
			distinct[sp.Name+"|"+d] = true
		}
		exhaustive = exhaustive && st.Exhaustive
		per = append(per, map[string]interface{}{"name": sp.Name, "config": sp.Cfg.String(), "histories": len(sp.Hists), "tapes": st.Tapes, "distinct_tape_shapes": st.Shapes, "cut_policy": sp.Policy, "cuts_judged": st.Evals, "wall_s": time.Since(t0).Seconds()})
		fmt.Fprintf(os.Stderr, "[%s] %s: tapes=%d shapes=%d cuts=%d distinct=%d exhaustive=%v %.1fs\n", prop, sp.Name, st.Tapes, st.Shapes, st.Evals, len(st.Distinct), st.Exhaustive, time.Since(t0).Seconds())
	}
	rep.Coverage["evaluations"] = evals
	rep.Coverage["distinct_nontrivial"] = len(distinct)
	rep.Coverage["exhaustive"] = exhaustive
	rep.Coverage["explorations"] = per
	rep.Coverage["rule"] = "tapes = final tapes of the listed histories (deduplicated by record shape), produced by the real write path; cut policy 'all' = every prefix length 0..|T| (byte granular), 'quick' = every 512-byte boundary, every boundary between two drive writes +-1 byte, every 7th byte of the last two records; each cut is rebuilt (C06) or opened with Initialize under each index variant (C16) on a fresh real stack. distinct_nontrivial = distinct (tape shape, torn record kind, part of the record hit, alignment)."
	rep.Assumptions = []string{"tape = regular file; a crash leaves a prefix of the bytes written (append-only log, no reordering of earlier blocks)", "config none (names must be readable to identify the torn entry)"}
	return rep.Finish()
}

func runC03(rep *engines.Report, p *pool.Pool, tier string) int {
	rep.Level = "exploration"
	comps := []string{"", "gzip", "parallelgzip", "lz4", "zstandard", "brotli", "bzip2", "parallelbzip2"}
	levels := []string{"fastest", "balanced", "smallest"}
	encs := []string{"", "age", "pgp"}
	sigs := []string{"", "minisign", "pgp"}
	rss := []int{1, 20}
	caches := []string{"memory"}
	fills := []string{"T"}
	if tier != "quick" {
		rss = []int{1, 2, 3, 7, 20, 64}
		caches = []string{"memory", "file"}
		fills = []string{"T", "Z", "R"}
	}
	jobs := []interface{}{}
	for _, c := range comps {
		for _, l := range levels {
			for _, e := range encs {
				for _, s := range sigs {
					for _, rs := range rss {
						for _, wc := range caches {
							lens := []int{0, 1, 513, 512*rs + 1}
							if tier != "quick" {
								lens = []int{0, 1, 511, 512, 513, 512*rs - 1, 512 * rs, 512*rs + 1, 5*512*rs + 17}
							}
							contents := []string{}
							seen := map[int]bool{}
							for _, n := range lens {
								if seen[n] {
									continue
								}
								seen[n] = true
								for _, f := range fills {
									if n == 0 && f != fills[0] {
										continue
									}
									contents = append(contents, fmt.Sprintf("%s%d:%d", f, n, n%7))
								}
							}
							// every content once per write pattern: rotate the pattern assignment over configurations so that each
							// (length class, pattern) pair occurs under every pipeline family
							pats := []int{0, 1, 2, 3, 4}
							rot := len(jobs) % 5
							pats = append(pats[rot:], pats[:rot]...)
							jobs = append(jobs, &engines.C03Job{Cfg: rig.Config{Compression: c, Level: l, Encryption: e, Signature: s, RecordSize: rs, WriteCache: wc}, Contents: contents, Patterns: pats})
						}
					}
				}
			}
		}
	}
	for _, c := range comps {
		for _, l := range levels {
			for _, rs := range []int{1, 2, 3, 7, 20, 64, 128, 256} {
				jobs = append(jobs, &engines.C03Job{Codec: true, Cfg: rig.Config{Compression: c, Level: l, RecordSize: rs}, Contents: []string{"T0", "T1", "T513:3", fmt.Sprintf("R%d:1", 5*512*rs+17)}})
			}
		}
	}
	budget := 6 * time.Minute
	if tier != "quick" {
		budget = 25 * time.Minute
	}
	deadline := time.Now().Add(budget)
	p.Stop = func() bool { return time.Now().After(deadline) }
	evals, skipped := 0, 0
	distinct := map[string]bool{}
	refused := map[string]bool{}
	harness := ""
	p.Map("c03", jobs, func(i int, resp *pool.Response) {
		job := jobs[i].(*engines.C03Job)
		if resp.Err == "skipped" {
			skipped++
			return
		}
		if resp.Err != "" {
			rep.Inconclusive++
			fmt.Fprintf(os.Stderr, "[C03] inconclusive: %s: %s\n", job.Cfg, resp.Err)
			return
		}
		var r engines.C03Res
		_ = json.Unmarshal(resp.Result, &r)
		if r.Harness != "" {
			harness = r.Harness
			return
		}
		evals += r.Evals
		for _, d := range r.Distinct {
			distinct[d] = true
		}
		for _, d := range r.Refused {
			refused[d] = true
		}
		for _, v := range r.Viol {
			// minimal replay job: this configuration only
			rep.Add("c03", job, []engines.Violation{v})
		}
	})
	p.Stop = nil
	if harness != "" {
		fmt.Fprintln(os.Stderr, "HARNESS ERROR:", harness)
		return 2
	}
	rep.AddSample(jobs[len(jobs)/3])
	rep.AddSample(jobs[len(jobs)-1])
	rep.Coverage["evaluations"] = evals
	rep.Coverage["distinct_nontrivial"] = len(distinct)
	rep.Coverage["pipelines"] = len(comps) * len(levels) * len(encs) * len(sigs)
	rep.Coverage["codec_refusals_accepted"] = len(refused)
	rep.Coverage["exhaustive"] = skipped == 0
	rep.Coverage["rule"] = "complete Cartesian product compression(8) x level(3) x encryption(3) x signature(3) x record size x write cache x content (length class x fill); every case is written through the afero API on a fresh real stack and read back four ways after a reopen (Stat size, File.Read, Operations.Restore, recovery.Fetch at the indexed position); plus component-level round trips of the codec parameters for regular and non-regular drives and tape-writer padding. distinct_nontrivial = distinct (pipeline, record size, cache, length class, fill) cells executed."
	rep.Assumptions = []string{"contents drawn from length classes {0,1,511,512,513,one record -1/0/+1, 5 records+17} and fills {text, zeros, pseudo-random}", "tape = regular file for the end-to-end part; non-regular parameters at component level only"}
	if skipped > 0 {
		rep.Notes = append(rep.Notes, fmt.Sprintf("budget reached: %d of %d configurations not executed", skipped, len(jobs)))
	}
	return rep.Finish()
}

func runC18(rep *engines.Report, p *pool.Pool, tier string) int {
	rep.Level = "exploration"
	// password classes: empty, ASCII, the same with white space at an edge (must be a DIFFERENT password), multi-byte, long
	pws := []string{"", "pw", "pw ", "pässwörd-日本"}
	pairs := 2
	if tier != "quick" {
		pws = []string{"", "pw", "pw ", " pw", "pw\n", " ", strings.Repeat("x", 64), "pässwörd-日本", "日本 ", strings.Repeat("k9", 512)}
	}
	jobs := []interface{}{}
	for _, kind := range []string{"enc-age", "enc-pgp", "sig-minisign", "sig-pgp"} {
		for _, pw := range pws {
			jobs = append(jobs, &engines.C18Job{Kind: kind, Password: pw, Others: pws, Pairs: pairs})
		}
	}
	evals := 0
	distinct := map[string]bool{}
	p.JobTimeout = 20 * time.Minute
	p.Map("c18", jobs, func(i int, resp *pool.Response) {
		if resp.Err != "" {
			rep.Inconclusive++
			fmt.Fprintf(os.Stderr, "[C18] inconclusive: %s\n", resp.Err)
			return
		}
		var r engines.C18Res
		_ = json.Unmarshal(resp.Result, &r)
		evals += r.Evals
		for _, d := range r.Distinct {
			distinct[d] = true
		}
		rep.Add("c18", jobs[i], r.Viol)
	})
	rep.AddSample(map[string]interface{}{"kind": "sig-minisign", "password_class": "multibyte", "wrong_passwords_tried": len(pws) - 1, "pairs": pairs})
	rep.Coverage["evaluations"] = evals
	rep.Coverage["distinct_nontrivial"] = len(distinct)
	rep.Coverage["exhaustive"] = rep.Inconclusive == 0
	rep.Coverage["rule"] = "complete matrix key kind {enc-age, enc-pgp, sig-minisign, sig-pgp} x password class x {generate+parse both halves, string and stream round trips on 0/5/70000 bytes, altered data, cross-pair rejection with a second independently generated pair, every other password of the list must not open the private half}; distinct_nontrivial = distinct (kind, password class, sub-check) executed. Key material itself is two fresh random samples per cell, not an enumeration."
	rep.Assumptions = []string{"key material: fresh random pairs per run (not enumerated)", "passwords from classes {empty, 1 char, 64 ASCII, multi-byte, 1 KiB}"}
	return rep.Finish()
}

func runC08(rep *engines.Report, p *pool.Pool, tier string) int {
	rep.Level = "fault_enumeration"
	type pl struct{ sig, enc, comp string }
	pls := []pl{{"minisign", "", ""}, {"pgp", "", ""}, {"pgp", "age", "gzip"}, {"minisign", "pgp", "zstandard"}}
	policy, shards := "quick", 12
	budget := 6 * time.Minute
	if tier != "quick" {
		pls = nil
		for _, s := range []string{"minisign", "pgp"} {
			for _, e := range []string{"", "age", "pgp"} {
				for _, c := range []string{"", "gzip", "zstandard"} {
					pls = append(pls, pl{s, e, c})
				}
			}
		}
		policy, shards = "all", 64
		budget = 25 * time.Minute
	}
	// order: the structured forgeries of every pipeline first, then the byte alterations shard by shard across all
	// pipelines (shard s = the alterations whose number is s modulo the shard count), so that a budget cut leaves every
	// pipeline with the same residue classes covered instead of leaving the last pipelines untouched
	jobs := []interface{}{}
	cfgOf := func(x pl) rig.Config {
		return rig.Config{Signature: x.sig, Encryption: x.enc, Compression: x.comp, RecordSize: 20}
	}
	for _, x := range pls {
		if x.enc == "" {
			jobs = append(jobs, &engines.C08Job{Cfg: cfgOf(x), Policy: "forge", NShards: 1})
		}
	}
	for sh := 0; sh < shards; sh++ {
		for _, x := range pls {
			jobs = append(jobs, &engines.C08Job{Cfg: cfgOf(x), Policy: policy, Shard: sh, NShards: shards})
		}
	}
	deadline := time.Now().Add(budget)
	p.Stop = func() bool { return time.Now().After(deadline) }
	p.JobTimeout = 10 * time.Minute
	evals, skipped, accepted, dropped := 0, 0, 0, 0
	distinct := map[string]bool{}
	harness := ""
	p.Map("c08", jobs, func(i int, resp *pool.Response) {
		job := jobs[i].(*engines.C08Job)
		if resp.Err == "skipped" {
			skipped++
			return
		}
		if resp.Err != "" {
			rep.Inconclusive++
			fmt.Fprintf(os.Stderr, "[C08] inconclusive: %s\n", resp.Err)
			return
		}
		var r engines.C08Res
		_ = json.Unmarshal(resp.Result, &r)
		if r.Harness != "" {
			harness = r.Harness
			return
		}
		evals += r.Evals
		accepted += r.Accepted
		dropped += r.Dropped
		for _, d := range r.Distinct {
			distinct[d] = true
		}
		for _, v := range r.Viol {
			mj := *job
			if v.Mut != nil {
				mj.Policy, mj.Shard, mj.NShards, mj.Muts = "", 0, 0, []engines.Mut{*v.Mut}
			}
			rep.Add("c08", &mj, []engines.Violation{v})
		}
	})
	p.Stop = nil
	if harness != "" {
		fmt.Fprintln(os.Stderr, "HARNESS ERROR:", harness)
		return 2
	}
	rep.AddSample(jobs[0])
	rep.AddSample(jobs[len(jobs)-1])
	rep.Coverage["evaluations"] = evals
	rep.Coverage["distinct_nontrivial"] = len(distinct)
	rep.Coverage["pipelines"] = len(pls)
	rep.Coverage["headers_accepted_and_checked"] = accepted
	rep.Coverage["rebuilds_that_reported_an_error"] = dropped
	rep.Coverage["exhaustive"] = skipped == 0
	rep.Coverage["rule"] = "per pipeline: a tape written by the real write path (dir, files, content update, rename, header-shaped payload, delete) while recording every header the writer signed and the content signed under each; alterations: policy 'all' = every byte position x {b^0x01, b^0x80, 0x00}; 'quick' = every second non-zero byte and every fifth zero byte of header/PAX blocks and every 16th payload byte; 'forge' = the structured forgery list per record (edited embedded header with kept/removed/empty/non-base64/garbage/wrong-packet signature, re-encoded header, swapped signatures, second key, outer size, replaced payload, appended plain/half-wrapped records). Each altered tape is rebuilt with the real verify callbacks; every accepted header must equal a signed one, every restorable file must return the content signed under its header or an error, both through recovery.Fetch at the indexed position and through the file API (Open, Read to EOF, Close). distinct_nontrivial = distinct (pipeline, record kind, part of the record / forgery)."
	rep.Assumptions = []string{"single alteration per tape", "structured forgeries only on unencrypted tapes (encrypted ones are covered by byte alterations)", "tape = regular file"}
	if skipped > 0 {
		rep.Notes = append(rep.Notes, fmt.Sprintf("budget reached: %d of %d batches not executed; batches are ordered forgeries first, then byte alterations shard-major (shard s of %d = alterations number s modulo %d, for every pipeline in turn), so about the first %d residue classes are covered for every pipeline", skipped, len(jobs), shards, shards, (len(jobs)-skipped-len(pls))/len(pls)))
	}
	return rep.Finish()
}

func runC11(rep *engines.Report, p *pool.Pool, tier string) int {
	type plan struct {
		seams bool
		bound int
		pairs bool // also run on the systematically generated pair scenarios
	}
	plans := []plan{{false, 0, false}, {false, 1, false}, {false, 2, true}, {true, 0, false}, {true, 1, false}}
	budget := 6 * time.Minute
	if tier != "quick" {
		plans = []plan{{false, 0, false}, {false, 1, false}, {false, 2, true}, {true, 0, false}, {true, 1, true}, {true, 2, false}, {false, 3, false}}
		budget = 24 * time.Minute
	}
	deadline := time.Now().Add(budget)
	p.JobTimeout = 20 * time.Minute
	totalExec, totalSteps := 0, 0
	per := []map[string]interface{}{}
	allOutcomes := map[string]bool{}
	exhaustive := true
	for _, pl := range plans {
		scns := engines.Scenarios()
		if pl.pairs {
			scns = engines.QuickScenarios()
			if tier != "quick" && !pl.seams && pl.bound <= 2 {
				scns = engines.AllScenarios()
			}
		}
		if time.Now().After(deadline) {
			exhaustive = false
			rep.Notes = append(rep.Notes, fmt.Sprintf("budget reached before plan seams=%v bound=%d", pl.seams, pl.bound))
			continue
		}
		t0 := time.Now()
		pr := runSchedulePlan(rep, p, "", scns, pl.seams, pl.bound, deadline)
		if pr.harness != "" {
			fmt.Fprintln(os.Stderr, "HARNESS ERROR:", pr.harness)
			return 2
		}
		exhaustive = exhaustive && pr.exhaustive
		totalExec += pr.execs
		totalSteps += pr.steps
		planExecs, completed := pr.execs, pr.completed
		for o := range pr.outcomes {
			allOutcomes[o] = true
		}
		per = append(per, pr.per...)
		fmt.Fprintf(os.Stderr, "[C11] plan seams=%v bound=%d: scenarios=%d completed=%d schedules=%d %.1fs\n", pl.seams, pl.bound, len(scns), completed, planExecs, time.Since(t0).Seconds())
	}
	rep.Coverage["states"] = len(allOutcomes)
	rep.Coverage["transitions"] = totalSteps
	rep.Coverage["traces_validated_against_impl"] = totalExec
	rep.Coverage["exhaustive"] = exhaustive
	rep.Coverage["explorations"] = per
	rep.Coverage["point_sets"] = map[string]string{"L": "every Mutex.Lock, pipe read/write, goroutine spawn/exit", "L+S": "L plus every index-store, backend and write-cache call"}
	rep.Coverage["rule"] = "stateless depth-first search over schedules of 2-3 client threads (+ background Restore goroutines) on one real fs.STFS, iterative preemption bounding; code between scheduling points runs atomically. Scenarios: the hand-written ones (S*) plus every unordered pair of calls from a 13-call alphabet, each call on its own thread (P*), plus parent-vs-child conflicts on an empty directory (Q*). states = distinct (observations, final tree) outcomes; transitions = scheduling steps executed; traces_validated_against_impl = complete schedules executed on the real code, each judged for completion (no deadlock), linearizability against the implementation's own sequential runs of every program-order-respecting permutation consistent with real-time order, and reproducibility of the final state from the tape."
	rep.Assumptions = []string{"data races are NOT decided here (a cooperative scheduler serialises everything); see the separate free-running -race pass reported under race_pass", "SQLite and database/sql run unscheduled", "2-3 threads, 1-4 calls each, scenarios listed in explorations"}
	racePass(rep)
	return rep.Finish()
}

type planResult struct {
	per          []map[string]interface{}
	execs, steps int
	completed    int
	outcomes     map[string]bool
	exhaustive   bool
	harness      string
}

// runSchedulePlan explores every schedule of every scenario within one (point set, preemption bound) plan.
// prop "" = the C11 judgement (completion, linearizability, reproducibility); "C13" = well-formedness of the final namespace.
func runSchedulePlan(rep *engines.Report, p *pool.Pool, prop string, scns []engines.Scenario, seams bool, bound int, deadline time.Time) *planResult {
	type agg struct {
		execs, steps, maxPoints int
		outcomes                map[string]bool
		capped                  bool
	}
	res := &planResult{outcomes: map[string]bool{}, exhaustive: true}
	aggs := map[string]*agg{}
	for _, sc := range scns {
		aggs[sc.Name] = &agg{outcomes: map[string]bool{}}
	}
	harness := ""
	handle := func(jobs []interface{}, collect *[]interface{}) func(i int, resp *pool.Response) {
		return func(i int, resp *pool.Response) {
			job := jobs[i].(*engines.C11Job)
			a := aggs[job.Scenario]
			if resp.Err == "skipped" {
				a.capped = true
				return
			}
			if resp.Err != "" {
				rep.Inconclusive++
				a.capped = true
				fmt.Fprintf(os.Stderr, "[schedules] inconclusive: %s prefix %v: %s\n", job.Scenario, job.Prefix, resp.Err)
				return
			}
			var r engines.C11Res
			_ = json.Unmarshal(resp.Result, &r)
			if r.Harness != "" {
				harness = job.Scenario + ": " + r.Harness
				return
			}
			a.execs += r.Execs
			a.steps += r.Steps
			if r.MaxPoints > a.maxPoints {
				a.maxPoints = r.MaxPoints
			}
			if r.Capped {
				a.capped = true
			}
			for _, o := range r.Outcomes {
				a.outcomes[o] = true
			}
			for _, s := range r.Sample {
				rep.AddSample(s)
			}
			if collect != nil {
				for _, c := range r.Children {
					*collect = append(*collect, &engines.C11Job{Scenario: job.Scenario, Prop: prop, Seams: job.Seams, Bound: job.Bound, Prefix: c})
				}
			}
			for _, v := range r.Viol {
				mj := &engines.C11Job{Scenario: job.Scenario, Prop: prop, Seams: job.Seams, Bound: job.Bound, Prefix: v.Sched, Mode: "one"}
				rep.Add("c11", mj, []engines.Violation{v})
			}
		}
	}
	p.Stop = func() bool { return time.Now().After(deadline) }
	lvl := []interface{}{}
	for _, sc := range scns {
		lvl = append(lvl, &engines.C11Job{Scenario: sc.Name, Prop: prop, Seams: seams, Bound: bound, Prefix: []int{}})
	}
	for depth := 0; depth < 2 && len(lvl) > 0; depth++ {
		for _, j := range lvl {
			j.(*engines.C11Job).Mode = "expand"
		}
		next := []interface{}{}
		p.Map("c11", lvl, handle(lvl, &next))
		lvl = next
	}
	for _, j := range lvl {
		j.(*engines.C11Job).Mode = "subtree"
	}
	p.Map("c11", lvl, handle(lvl, nil))
	p.Stop = nil
	if harness != "" {
		res.harness = harness
		return res
	}
	for _, sc := range scns {
		a := aggs[sc.Name]
		if a.capped {
			res.exhaustive = false
			rep.Notes = append(rep.Notes, fmt.Sprintf("%s seams=%v bound=%d: not completed within the budget", sc.Name, seams, bound))
		} else {
			res.completed++
		}
		res.execs += a.execs
		res.steps += a.steps
		for o := range a.outcomes {
			res.outcomes[sc.Name+"|"+o] = true
		}
		res.per = append(res.per, map[string]interface{}{"scenario": sc.Name, "point_set": map[bool]string{false: "L", true: "L+S"}[seams],
			"preemption_bound": bound, "schedules": a.execs, "scheduling_steps": a.steps, "max_points_per_execution": a.maxPoints, "distinct_outcomes": len(a.outcomes), "completed": !a.capped})
	}
	return res
}

// racePass: the same scenario bodies, free-running (real goroutines, sync.Mutex, io.Pipe) in a binary built with -race.
// This pass samples schedules by nature; it exists because a cooperative scheduler's hand-offs are happens-before
// edges that blind the race detector. It is reported separately and is not what the exhaustiveness claim rests on.
func racePass(rep *engines.Report) {
	bin := filepath.Join(buildDir(), "stfsmc-race")
	if _, err := os.Stat(bin); err != nil {
		rep.Coverage["race_pass"] = "not run: the -race binary is not built"
		return
	}
	iters := "30"
	if rep.Tier != "quick" {
		iters = "150"
	}
	type result struct {
		Scenario string `json:"scenario"`
		Output   string `json:"output"`
		Races    int    `json:"races"`
	}
	results := []result{}
	for si, scn := range engines.QuickScenarios() {
		if strings.HasPrefix(scn.Name, "S6") {
			continue // deadlocks (known finding): nothing to sample
		}
		generated := !strings.HasPrefix(scn.Name, "S")
		if generated && ((rep.Tier == "quick" && si%10 != 0) || (rep.Tier != "quick" && si%3 != 0)) {
			continue // the hand-written scenarios, and every tenth (quick) / third (thorough) generated pair
		}
		if generated && rep.Tier != "quick" {
			iters = "50"
		} else if rep.Tier != "quick" {
			iters = "150"
		}
		cmd := exec.Command(bin, "racebody", scn.Name, iters)
		cmd.Env = append(os.Environ(), "GOMAXPROCS=16", "GORACE=halt_on_error=0")
		var out, errb strings.Builder
		cmd.Stdout, cmd.Stderr = &out, &errb
		done := make(chan error, 1)
		_ = cmd.Start()
		go func() { done <- cmd.Wait() }()
		select {
		case <-done:
		case <-time.After(5 * time.Minute):
			_ = cmd.Process.Kill()
			<-done
		}
		// only reports that involve code of the repository count (a report whose frames are all in the harness is the
		// harness's own problem, never a verdict)
		races := 0
		for _, blk := range strings.Split(errb.String(), "WARNING: DATA RACE")[1:] {
			if i := strings.Index(blk, "=================="); i >= 0 {
				blk = blk[:i]
			}
			for _, ln := range strings.Split(blk, "\n") {
				ln = strings.TrimSpace(ln)
				if strings.HasPrefix(ln, "github.com/pojntfx/stfs/") && !strings.HasPrefix(ln, "github.com/pojntfx/stfs/pkg/zzverif/") {
					races++
					break
				}
			}
		}
		results = append(results, result{scn.Name, strings.TrimSpace(out.String()), races})
		if races > 0 {
			// class = scenario + the first stfs frames of the report
			rptxt := errb.String()
			frames := []string{}
			for _, ln := range strings.Split(rptxt, "\n") {
				ln = strings.TrimSpace(ln)
				if strings.HasPrefix(ln, "github.com/pojntfx/stfs/") && len(frames) < 2 {
					f := ln
					if i := strings.Index(f, "("); i > 0 && strings.Contains(f[i:], ")") && !strings.Contains(f[:i], "(*") {
						f = f[:i]
					}
					frames = append(frames, strings.TrimPrefix(f, "github.com/pojntfx/stfs/"))
				}
			}
			if len(rptxt) > 3000 {
				rptxt = rptxt[:3000]
			}
			rep.Add("", nil, []engines.Violation{{Prop: "C11", Class: "C11|data-race|" + scn.Name + "|" + strings.Join(frames, "<-"), Detail: "free-running -race pass on scenario " + scn.Name + ":\n" + rptxt}})
		}
	}
	rep.Coverage["race_pass"] = map[string]interface{}{"sampled": true, "iterations_per_scenario": iters, "results": results}
}
