// Package kf reads /verif/known_findings.txt and matches violations against it by exact class-key equality.
package kf

import (
	"bufio"
	"os"
	"strings"
)

type Known struct {
	Prop  string
	Class string
	Extra []string // continuation lines (site, witness, what)
	Seen  int
}

type File struct {
	Known []*Known
	Fixed []string
}

// Load parses the file. Format (line oriented):
//
//	known: property=<id> class=<class key to end of line>
//	       <indented continuation lines: site=..., witness=..., what=...>
//	fixed: property=<id> <commit> <what failed>
func Load(path string) (*File, error) {
	f := &File{}
	fh, err := os.Open(path)
	if err != nil {
		if os.IsNotExist(err) {
			return f, nil
		}
		return nil, err
	}
	defer fh.Close()
	sc := bufio.NewScanner(fh)
	sc.Buffer(make([]byte, 1<<20), 1<<20)
	var cur *Known
	for sc.Scan() {
		line := sc.Text()
		if strings.HasPrefix(line, "#") || strings.TrimSpace(line) == "" {
			continue
		}
		if strings.HasPrefix(line, "known:") {
			rest := strings.TrimSpace(strings.TrimPrefix(line, "known:"))
			k := &Known{}
			if strings.HasPrefix(rest, "property=") {
				sp := strings.IndexByte(rest, ' ')
				if sp > 0 {
					k.Prop = strings.TrimPrefix(rest[:sp], "property=")
					rest = strings.TrimSpace(rest[sp+1:])
				}
			}
			k.Class = strings.TrimPrefix(rest, "class=")
			f.Known = append(f.Known, k)
			cur = k
			continue
		}
		if strings.HasPrefix(line, "fixed:") {
			f.Fixed = append(f.Fixed, strings.TrimSpace(strings.TrimPrefix(line, "fixed:")))
			cur = nil
			continue
		}
		if (line[0] == ' ' || line[0] == '\t') && cur != nil {
			cur.Extra = append(cur.Extra, strings.TrimSpace(line))
		}
	}
	return f, sc.Err()
}

func (f *File) Match(prop, class string) *Known {
	for _, k := range f.Known {
		if k.Prop == prop && k.Class == class {
			return k
		}
	}
	return nil
}
