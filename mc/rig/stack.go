// Package rig builds a real STFS stack (real TapeManager, real SQLite persister, real Operations, real fs.STFS)
// over files in a scratch directory, with the seam wrappers used for fault injection, counting and scheduling.
package rig

import (
	"context"
	"errors"
	"fmt"
	"io"
	"os"
	"path/filepath"
	"sync"

	golog "github.com/fclairamb/go-log"
	"github.com/pojntfx/stfs/pkg/cache"
	"github.com/pojntfx/stfs/pkg/config"
	"github.com/pojntfx/stfs/pkg/fs"
	"github.com/pojntfx/stfs/pkg/mtio"
	"github.com/pojntfx/stfs/pkg/operations"
	"github.com/pojntfx/stfs/pkg/persisters"
	"github.com/pojntfx/stfs/pkg/tape"
	"github.com/pojntfx/stfs/pkg/zzverif/vsync"
	"github.com/spf13/afero"
)

type Config struct {
	Compression string `json:"comp,omitempty"`
	Encryption  string `json:"enc,omitempty"`
	Signature   string `json:"sig,omitempty"`
	Level       string `json:"level,omitempty"`
	RecordSize  int    `json:"rs"`
	WriteCache  string `json:"wc,omitempty"` // memory (default) | file
	ReadOnly    bool   `json:"ro,omitempty"`
	NoWriteOps  bool   `json:"nowrite,omitempty"`   // like `serve http`: writeOps=nil, getFileBuffer=nil
	KeySet      int    `json:"keyset,omitempty"`    // which key set to use for reading (1 = the wrong one)
	Overwrite   bool   `json:"overwrite,omitempty"` // TapeManager constructed with overwrite=true (explicit overwrite on first use)
	WPIR        bool   `json:"wpir,omitempty"`      // NewSTFS(writePermImpliesReadPerm=true), what `serve ftp` passes
}

func (c Config) String() string {
	s := fmt.Sprintf("comp=%s enc=%s sig=%s rs=%d wc=%s", nz(c.Compression), nz(c.Encryption), nz(c.Signature), c.RecordSize, nz(c.WriteCache))
	if c.ReadOnly {
		s += " ro"
	}
	if c.NoWriteOps {
		s += " nowrite"
	}
	if c.Overwrite {
		s += " overwrite-manager"
	}
	if c.WPIR {
		s += " write-perm-implies-read-perm"
	}
	return s
}
func nz(s string) string {
	if s == "" {
		return "none"
	}
	return s
}

func (c Config) Normalised() Config {
	if c.RecordSize == 0 {
		c.RecordSize = 20
	}
	if c.Level == "" {
		c.Level = config.CompressionLevelFastestKey
	}
	if c.WriteCache == "" {
		c.WriteCache = config.WriteCacheTypeMemory
	}
	return c
}

type nopLogger struct{}

func (nopLogger) Trace(string, ...interface{})       {}
func (nopLogger) Debug(string, ...interface{})       {}
func (nopLogger) Info(string, ...interface{})        {}
func (nopLogger) Warn(string, ...interface{})        {}
func (nopLogger) Error(string, ...interface{})       {}
func (nopLogger) Panic(string, ...interface{})       {}
func (l nopLogger) With(...interface{}) golog.Logger { return l }

// ErrInjected is the opaque error the fault seams return.
var ErrInjected = errors.New("injected fault")

// Fault arms "the K-th event (1-based) at seam Seam fails" (Mode: "err", or "short" for a short drive write).
type Fault struct {
	Seam string `json:"seam"`
	K    int    `json:"k"`
	Mode string `json:"mode,omitempty"`
}

// Handle is an open file handle kept across calls of a history.
type Handle struct {
	F      afero.File
	Path   string
	Flags  int
	Reads  int
	Writes int
	Seeks  int // Seek calls: a seek can start the streaming read without consuming anything (hidden handle state)
}

type WriteRec struct {
	Off int64 `json:"off"`
	N   int   `json:"n"`
}

type Stack struct {
	Cfg   Config
	Dir   string
	Drive string
	Index string

	TM   *tape.TapeManager
	MP   *persisters.MetadataPersister
	Meta config.MetadataPersister

	Backend  config.BackendConfig
	ReadOps  *operations.Operations
	WriteOps *operations.Operations
	FS       *fs.STFS
	AFS      afero.Fs // what callers use: FS itself, or the documented composition over a named root
	Root     string

	// seam accounting
	Counts         map[string]int
	Armed          *Fault
	Fired          bool
	WriteLog       []WriteRec
	ReadSteps      int
	ReadBudget     int // 0 = unlimited
	BudgetExceeded bool
	OpenCaches     int

	Handles map[int]*Handle
	mu      sync.Mutex

	// signed-header recording (C08)
	OnWriteHeader func(ev *config.HeaderEvent)
	OnReadHeader  func(ev *config.HeaderEvent)
}

// event counts one seam event and reports whether the armed fault fires on it.
func (s *Stack) event(seam string) bool {
	vsync.Seam(seam)
	s.mu.Lock() // only contended in the free-running race pass
	defer s.mu.Unlock()
	s.Counts[seam]++
	if s.Armed != nil && !s.Fired && s.Armed.Seam == seam && s.Counts[seam] == s.Armed.K {
		s.Fired = true
		return true
	}
	return false
}

func (s *Stack) ResetCounts() { s.Counts = map[string]int{}; s.Fired = false }

// ---------------------------------------------------------------------------------------------------------------------

type driveWriter struct {
	s *Stack
	f io.Writer
}

func (w *driveWriter) Write(p []byte) (int, error) {
	if w.s.event("drive.Write") {
		if w.s.Armed.Mode == "short" && len(p) > 1 {
			n, _ := w.f.Write(p[:len(p)/2])
			w.s.logWrite(n)
			return n, io.ErrShortWrite
		}
		return 0, ErrInjected
	}
	n, err := w.f.Write(p)
	w.s.logWrite(n)
	return n, err
}

// SetHandle / GetHandle / DelHandle guard the handle table (threads of the race pass share it).
func (s *Stack) SetHandle(slot int, h *Handle) {
	s.mu.Lock()
	defer s.mu.Unlock()
	if s.Handles == nil {
		s.Handles = map[int]*Handle{}
	}
	s.Handles[slot] = h
}
func (s *Stack) GetHandle(slot int) *Handle {
	s.mu.Lock()
	defer s.mu.Unlock()
	return s.Handles[slot]
}
func (s *Stack) DelHandle(slot int) {
	s.mu.Lock()
	defer s.mu.Unlock()
	delete(s.Handles, slot)
}

func (s *Stack) logWrite(n int) {
	s.mu.Lock()
	defer s.mu.Unlock()
	off := int64(0)
	if l := len(s.WriteLog); l > 0 {
		off = s.WriteLog[l-1].Off + int64(s.WriteLog[l-1].N)
	} else if st, err := os.Stat(s.Drive); err == nil {
		off = st.Size() - int64(n)
	}
	s.WriteLog = append(s.WriteLog, WriteRec{Off: off, N: n})
}

type driveReader struct {
	s *Stack
	f config.ReadSeekFder
}

func (r *driveReader) Read(p []byte) (int, error) {
	if r.s.ReadBudget > 0 {
		r.s.ReadSteps++
	}
	if r.s.ReadBudget > 0 && r.s.ReadSteps > r.s.ReadBudget {
		r.s.BudgetExceeded = true
		return 0, errors.New("verif: drive reader step budget exceeded (no progress)")
	}
	if r.s.event("drive.Read") {
		return 0, ErrInjected
	}
	return r.f.Read(p)
}
func (r *driveReader) Seek(off int64, whence int) (int64, error) {
	if r.s.ReadBudget > 0 {
		r.s.ReadSteps++
	}
	if r.s.ReadBudget > 0 && r.s.ReadSteps > r.s.ReadBudget {
		r.s.BudgetExceeded = true
		return 0, errors.New("verif: drive reader step budget exceeded (no progress)")
	}
	if r.s.event("drive.Seek") {
		return 0, ErrInjected
	}
	return r.f.Seek(off, whence)
}
func (r *driveReader) Fd() uintptr { return r.f.Fd() }

// ---------------------------------------------------------------------------------------------------------------------

type faultyMeta struct {
	s *Stack
	m config.MetadataPersister
}

func (f *faultyMeta) UpsertHeader(ctx context.Context, h *config.Header, init bool) error {
	if f.s.event("meta.UpsertHeader") {
		return ErrInjected
	}
	return f.m.UpsertHeader(ctx, h, init)
}
func (f *faultyMeta) UpdateHeaderMetadata(ctx context.Context, h *config.Header) error {
	if f.s.event("meta.UpdateHeaderMetadata") {
		return ErrInjected
	}
	return f.m.UpdateHeaderMetadata(ctx, h)
}
func (f *faultyMeta) MoveHeader(ctx context.Context, o, n string, r, b int64) error {
	if f.s.event("meta.MoveHeader") {
		return ErrInjected
	}
	return f.m.MoveHeader(ctx, o, n, r, b)
}
func (f *faultyMeta) GetHeaders(ctx context.Context) ([]*config.Header, error) {
	if f.s.event("meta.GetHeaders") {
		return nil, ErrInjected
	}
	return f.m.GetHeaders(ctx)
}
func (f *faultyMeta) GetHeader(ctx context.Context, n string) (*config.Header, error) {
	if f.s.event("meta.GetHeader") {
		return nil, ErrInjected
	}
	return f.m.GetHeader(ctx, n)
}
func (f *faultyMeta) GetHeaderByLinkname(ctx context.Context, n string) (*config.Header, error) {
	if f.s.event("meta.GetHeaderByLinkname") {
		return nil, ErrInjected
	}
	return f.m.GetHeaderByLinkname(ctx, n)
}
func (f *faultyMeta) GetHeaderChildren(ctx context.Context, n string) ([]*config.Header, error) {
	if f.s.event("meta.GetHeaderChildren") {
		return nil, ErrInjected
	}
	return f.m.GetHeaderChildren(ctx, n)
}
func (f *faultyMeta) GetRootPath(ctx context.Context) (string, error) {
	if f.s.event("meta.GetRootPath") {
		return "", ErrInjected
	}
	return f.m.GetRootPath(ctx)
}
func (f *faultyMeta) GetHeaderDirectChildren(ctx context.Context, n string, l int) ([]*config.Header, error) {
	if f.s.event("meta.GetHeaderDirectChildren") {
		return nil, ErrInjected
	}
	return f.m.GetHeaderDirectChildren(ctx, n, l)
}
func (f *faultyMeta) DeleteHeader(ctx context.Context, n string, r, b int64) (*config.Header, error) {
	if f.s.event("meta.DeleteHeader") {
		return nil, ErrInjected
	}
	return f.m.DeleteHeader(ctx, n, r, b)
}
func (f *faultyMeta) GetLastIndexedRecordAndBlock(ctx context.Context, rs int) (int64, int64, error) {
	if f.s.event("meta.GetLastIndexedRecordAndBlock") {
		return 0, 0, ErrInjected
	}
	return f.m.GetLastIndexedRecordAndBlock(ctx, rs)
}
func (f *faultyMeta) PurgeAllHeaders(ctx context.Context) error {
	if f.s.event("meta.PurgeAllHeaders") {
		return ErrInjected
	}
	return f.m.PurgeAllHeaders(ctx)
}

// ---------------------------------------------------------------------------------------------------------------------

type faultyCache struct {
	s *Stack
	c cache.WriteCache
}

func (f *faultyCache) Close() error { return f.c.Close() }
func (f *faultyCache) Read(p []byte) (int, error) {
	if f.s.event("cache.Read") {
		return 0, ErrInjected
	}
	return f.c.Read(p)
}
func (f *faultyCache) Seek(o int64, w int) (int64, error) {
	if f.s.event("cache.Seek") {
		return 0, ErrInjected
	}
	return f.c.Seek(o, w)
}
func (f *faultyCache) Write(p []byte) (int, error) {
	if f.s.event("cache.Write") {
		return 0, ErrInjected
	}
	return f.c.Write(p)
}
func (f *faultyCache) Truncate(n int64) error {
	if f.s.event("cache.Truncate") {
		return ErrInjected
	}
	return f.c.Truncate(n)
}
func (f *faultyCache) Size() (int64, error) {
	if f.s.event("cache.Size") {
		return 0, ErrInjected
	}
	return f.c.Size()
}
func (f *faultyCache) Sync() error { return f.c.Sync() }

// ---------------------------------------------------------------------------------------------------------------------

// NewStack builds the stack over dir/drive.tar and dir/index.sqlite (both may already exist).
func NewStack(dir string, cfg Config, keys *Keys) (*Stack, error) {
	cfg = cfg.Normalised()
	s := &Stack{Cfg: cfg, Dir: dir, Drive: filepath.Join(dir, "drive.tar"), Index: filepath.Join(dir, "index.sqlite"), Counts: map[string]int{}}
	if err := os.MkdirAll(dir, 0o755); err != nil {
		return nil, err
	}

	mt := mtio.MagneticTapeIO{}
	s.TM = tape.NewTapeManager(s.Drive, mt, cfg.RecordSize, cfg.Overwrite)
	s.MP = persisters.NewMetadataPersister(s.Index)
	if err := s.MP.Open(); err != nil {
		return nil, fmt.Errorf("persister open: %w", err)
	}
	s.Meta = &faultyMeta{s: s, m: s.MP}
	metadataConfig := config.MetadataConfig{Metadata: s.Meta}
	pipes := config.PipeConfig{Compression: cfg.Compression, Encryption: cfg.Encryption, Signature: cfg.Signature, RecordSize: cfg.RecordSize}

	s.Backend = config.BackendConfig{
		GetWriter: func() (config.DriveWriterConfig, error) {
			if s.event("backend.GetWriter") {
				// make the real open fail: the drive path is a directory for this one call
				tmp := s.Drive + ".away"
				_ = os.Rename(s.Drive, tmp)
				_ = os.Mkdir(s.Drive, 0o755)
				w, err := s.TM.GetWriter()
				_ = os.Remove(s.Drive)
				_ = os.Rename(tmp, s.Drive)
				if err == nil {
					return w, errors.New("verif: expected the open to fail")
				}
				return w, err
			}
			w, err := s.TM.GetWriter()
			if err != nil {
				return w, err
			}
			return config.DriveWriterConfig{Drive: &driveWriter{s: s, f: w.Drive}, DriveIsRegular: w.DriveIsRegular}, nil
		},
		CloseWriter: func() error {
			inject := s.event("backend.CloseWriter")
			err := s.TM.Close()
			if inject {
				return ErrInjected
			}
			return err
		},
		GetReader: func() (config.DriveReaderConfig, error) {
			if s.event("backend.GetReader") {
				// make the real open fail: the drive path does not exist for this one call
				// (only effective if the manager has to reopen; a reused reader does not open anything)
				tmp := s.Drive + ".away"
				_ = os.Rename(s.Drive, tmp)
				r, err := s.TM.GetReader()
				_ = os.Rename(tmp, s.Drive)
				if err == nil {
					s.Fired = false // nothing failed
					return config.DriveReaderConfig{Drive: &driveReader{s: s, f: r.Drive}, DriveIsRegular: r.DriveIsRegular}, nil
				}
				return r, err
			}
			r, err := s.TM.GetReader()
			if err != nil {
				return r, err
			}
			return config.DriveReaderConfig{Drive: &driveReader{s: s, f: r.Drive}, DriveIsRegular: r.DriveIsRegular}, nil
		},
		CloseReader: func() error {
			inject := s.event("backend.CloseReader")
			err := s.TM.Close()
			if inject {
				return ErrInjected
			}
			return err
		},
		MagneticTapeIO: mt,
	}

	readKeys := keys
	if cfg.KeySet == 1 && keys != nil {
		readKeys = keys.Other
	}
	var sigRecipient, sigIdentity, encRecipient, encIdentity interface{}
	var err error
	if cfg.Signature != "" {
		if sigRecipient, sigIdentity, err = readKeys.Signer(cfg.Signature, keys); err != nil {
			return nil, err
		}
	} else {
		sigRecipient, sigIdentity = []byte{}, []byte{}
	}
	if cfg.Encryption != "" {
		if encRecipient, encIdentity, err = readKeys.Encrypter(cfg.Encryption, keys); err != nil {
			return nil, err
		}
	} else {
		encRecipient, encIdentity = []byte{}, []byte{}
	}

	s.ReadOps = operations.NewOperations(s.Backend, metadataConfig, pipes,
		config.CryptoConfig{Recipient: sigRecipient, Identity: encIdentity},
		func(ev *config.HeaderEvent) {
			if s.OnReadHeader != nil {
				s.OnReadHeader(ev)
			}
		})
	s.WriteOps = operations.NewOperations(s.Backend, metadataConfig, pipes,
		config.CryptoConfig{Recipient: encRecipient, Identity: sigIdentity},
		func(ev *config.HeaderEvent) {
			if s.OnWriteHeader != nil {
				s.OnWriteHeader(ev)
			}
		})

	getBuf := func() (cache.WriteCache, func() error, error) {
		if s.event("cache.New") {
			return nil, nil, ErrInjected
		}
		c, clean, err := cache.NewCacheWrite(filepath.Join(dir, "wc"), cfg.WriteCache)
		if err != nil {
			return nil, nil, err
		}
		s.mu.Lock()
		s.OpenCaches++
		s.mu.Unlock()
		return &faultyCache{s: s, c: c}, clean, nil
	}
	writeOps := s.WriteOps
	if cfg.NoWriteOps {
		writeOps = nil
		getBuf = nil
	}
	s.FS = fs.NewSTFS(s.ReadOps, writeOps, metadataConfig, cfg.Level, getBuf, cfg.ReadOnly, cfg.WPIR, func(hdr *config.Header) {}, nopLogger{})
	s.AFS = s.FS
	return s, nil
}

// Init calls STFS.Initialize("/", 0777) like the documented composition does.
func (s *Stack) Init() error {
	root, err := s.FS.Initialize("/", os.ModePerm)
	s.Root = root
	if err == nil {
		s.compose(root)
	}
	return err
}

// compose applies the documented composition: cache.NewCacheFilesystem(stfs, root, none).
func (s *Stack) compose(root string) {
	if a, err := cache.NewCacheFilesystem(s.FS, root, config.NoneKey, 0, ""); err == nil {
		s.AFS = a
	}
}

// ComposeFromIndex composes over the root the index reports (used after a rebuild that bypassed Initialize).
func (s *Stack) ComposeFromIndex() {
	if root, err := s.MP.GetRootPath(context.Background()); err == nil {
		s.Root = root
		s.compose(root)
	}
}

// Close releases the SQLite handle. (The TapeManager has no destructor; its reader file is left to the GC/finalizer.)
func (s *Stack) Close() {
	defer func() { _ = recover() }()
	_ = s.TM.Close // nothing to do
	closeDB(s.MP)
}
