package rig

import (
	"archive/tar"
	"bytes"
	"crypto/sha256"
	"database/sql"
	"encoding/hex"
	"errors"
	"fmt"
	"io"
	"os"
	"path"
	"sort"
	"strings"

	stfsfs "github.com/pojntfx/stfs/pkg/fs"
	"github.com/spf13/afero"
	_ "modernc.org/sqlite"
)

// Entry is one node of the visible tree.
type Entry struct {
	Path  string `json:"p"`
	Kind  string `json:"k"` // d f l ?
	Size  int64  `json:"s"`
	Perm  uint32 `json:"m"`
	UID   int    `json:"u"`
	GID   int    `json:"g"`
	Mtime int64  `json:"mt"`
	Atime int64  `json:"at"`
	Ctime int64  `json:"ct"`
	Link  string `json:"l,omitempty"`
	Data  string `json:"d,omitempty"` // content (short) or sha256 (long)
	Err   string `json:"e,omitempty"`
}

func (e Entry) String() string {
	s := fmt.Sprintf("%s %s size=%d perm=%o uid=%d gid=%d mt=%d at=%d ct=%d", e.Kind, e.Path, e.Size, e.Perm, e.UID, e.GID, e.Mtime, e.Atime, e.Ctime)
	if e.Link != "" {
		s += " ->" + e.Link
	}
	if e.Kind == "f" {
		s += " data=" + e.Data
	}
	if e.Err != "" {
		s += " ERR=" + e.Err
	}
	return s
}

func DataKey(b []byte) string {
	if len(b) <= 24 {
		return "=" + string(b)
	}
	h := sha256.Sum256(b)
	return fmt.Sprintf("#%d:%s", len(b), hex.EncodeToString(h[:8]))
}

func infoEntry(p string, fi os.FileInfo) Entry {
	e := Entry{Path: p, Size: fi.Size(), Perm: uint32(fi.Mode().Perm()), Mtime: fi.ModTime().UnixNano()}
	switch {
	case fi.IsDir():
		e.Kind = "d"
	case fi.Mode()&os.ModeSymlink != 0:
		e.Kind = "l"
	case fi.Mode().IsRegular():
		e.Kind = "f"
	default:
		e.Kind = "?"
	}
	if st, ok := fi.Sys().(*stfsfs.Stat); ok && st != nil {
		e.UID, e.GID = int(st.Uid), int(st.Gid)
		e.Atime = st.Atim.Nano()
		e.Ctime = st.Ctim.Nano()
	}
	return e
}

// ReadAll reads a file through the afero API with a fixed-size buffer, tolerating the n=-1 convention.
func ReadAll(f afero.File) ([]byte, error) {
	var out []byte
	buf := make([]byte, 4096)
	for i := 0; i < 1<<16; i++ {
		n, err := f.Read(buf)
		if n > 0 {
			out = append(out, buf[:n]...)
		}
		if err == io.EOF {
			return out, nil
		}
		if err != nil {
			return out, err
		}
		if n <= 0 {
			return out, errors.New("Read returned 0 bytes without error")
		}
	}
	return out, errors.New("Read did not reach EOF")
}

// ReadFile opens, reads fully and closes.
func ReadFile(fsys afero.Fs, p string) ([]byte, error) {
	f, err := fsys.Open(p)
	if err != nil {
		return nil, err
	}
	b, err := ReadAll(f)
	cerr := f.Close()
	if err == nil {
		err = cerr
	}
	return b, err
}

// Walk lists the visible tree from root by Open+Readdir(-1), Stat per entry and a full read per regular file.
// Structural problems (listing errors, stat errors) are recorded in Entry.Err rather than aborting.
func Walk(fsys afero.Fs, root string) []Entry {
	var out []Entry
	seen := map[string]bool{}
	var rec func(p string, depth int)
	rec = func(p string, depth int) {
		if seen[p] || depth > 12 {
			return
		}
		seen[p] = true
		fi, err := fsys.Stat(p)
		if err != nil {
			out = append(out, Entry{Path: p, Kind: "?", Err: "stat: " + err.Error()})
			return
		}
		e := infoEntry(p, fi)
		if l, ok := fsys.(afero.Lstater); ok {
			if lfi, _, lerr := l.LstatIfPossible(p); lerr == nil && lfi != nil && lfi.Mode()&os.ModeSymlink != 0 {
				if r, ok := fsys.(afero.LinkReader); ok {
					if tgt, rerr := r.ReadlinkIfPossible(p); rerr == nil && tgt != "" {
						e.Link = tgt
					}
				}
			}
		}
		switch e.Kind {
		case "f":
			b, err := ReadFile(fsys, p)
			if err != nil {
				e.Err = "read: " + err.Error()
			}
			e.Data = DataKey(b)
			out = append(out, e)
		case "d":
			f, err := fsys.Open(p)
			if err != nil {
				e.Err = "open: " + err.Error()
				out = append(out, e)
				return
			}
			infos, err := f.Readdir(-1)
			_ = f.Close()
			if err != nil {
				e.Err = "readdir: " + err.Error()
			}
			out = append(out, e)
			names := []string{}
			for _, ci := range infos {
				names = append(names, ci.Name())
			}
			sort.Strings(names)
			for _, n := range names {
				rec(path.Join(p, n), depth+1)
			}
		default:
			out = append(out, e)
		}
	}
	rec(root, 0)
	sort.Slice(out, func(i, j int) bool { return out[i].Path < out[j].Path })
	return out
}

// ---------------------------------------------------------------------------------------------------------------------

// Row is one raw row of the headers table.
type Row struct {
	Name, Linkname        string
	Deleted, Typeflag     int64
	Record, Block         int64
	LastRecord, LastBlock int64
	Size, Mode, UID, GID  int64
	Modtime, Atime, Ctime string
	Pax                   string
}

func NormName(n string) string {
	n = strings.TrimPrefix(n, "./")
	n = strings.TrimPrefix(n, "/")
	n = strings.TrimSuffix(n, "/")
	if n == "." {
		n = ""
	}
	return "/" + n
}

// DumpIndex reads all rows (including tombstones) directly from the SQLite file.
func DumpIndex(file string) ([]Row, error) {
	db, err := sql.Open("sqlite", "file:"+file+"?mode=ro")
	if err != nil {
		return nil, err
	}
	defer db.Close()
	rows, err := db.Query(`select name, linkname, deleted, typeflag, record, block, lastknownrecord, lastknownblock, size, mode, uid, gid, modtime, accesstime, changetime, paxrecords from headers order by name, linkname`)
	if err != nil {
		return nil, err
	}
	defer rows.Close()
	var out []Row
	for rows.Next() {
		var r Row
		if err := rows.Scan(&r.Name, &r.Linkname, &r.Deleted, &r.Typeflag, &r.Record, &r.Block, &r.LastRecord, &r.LastBlock, &r.Size, &r.Mode, &r.UID, &r.GID, &r.Modtime, &r.Atime, &r.Ctime, &r.Pax); err != nil {
			return nil, err
		}
		out = append(out, r)
	}
	return out, rows.Err()
}

// ---------------------------------------------------------------------------------------------------------------------

// Rec is one tar record found by the independent scanner.
type Rec struct {
	Off     int64 // byte offset of the first block of the record (the PAX extended header block if present)
	HdrOff  int64 // offset of the ustar header proper
	DataOff int64
	Size    int64  // payload bytes
	End     int64  // offset after payload padding
	Name    string // ustar name field of the main header
	Type    byte
	Pax     map[string]string
}

func octal(b []byte) int64 {
	s := strings.TrimRight(strings.TrimSpace(string(bytes.TrimRight(b, "\x00"))), "\x00")
	if len(b) > 0 && b[0]&0x80 != 0 { // base-256
		var v int64
		for i, c := range b {
			if i == 0 {
				c &= 0x7f
			}
			v = v<<8 | int64(c)
		}
		return v
	}
	var v int64
	for _, c := range s {
		if c < '0' || c > '7' {
			break
		}
		v = v*8 + int64(c-'0')
	}
	return v
}

func isZero(b []byte) bool {
	for _, c := range b {
		if c != 0 {
			return false
		}
	}
	return true
}

func checksumOK(b []byte) bool {
	var sum int64
	for i, c := range b[:512] {
		if i >= 148 && i < 156 {
			c = ' '
		}
		sum += int64(c)
	}
	return sum == octal(b[148:156])
}

func parsePax(b []byte) map[string]string {
	m := map[string]string{}
	for len(b) > 0 {
		sp := bytes.IndexByte(b, ' ')
		if sp < 0 {
			break
		}
		var n int
		if _, err := fmt.Sscanf(string(b[:sp]), "%d", &n); err != nil || n <= sp || n > len(b) {
			break
		}
		rec := string(b[sp+1 : n])
		rec = strings.TrimSuffix(rec, "\n")
		if eq := strings.IndexByte(rec, '='); eq >= 0 {
			m[rec[:eq]] = rec[eq+1:]
		}
		b = b[n:]
	}
	return m
}

// Scan walks a tape image block by block: records (optional 'x'/'g' PAX blocks + main header + payload) and
// zero-block trailers. It stops at the first thing that is neither (Complete=false), or at the end.
type ScanResult struct {
	Recs     []Rec
	Complete bool  // reached the end of the image on the block grid with only records and zero blocks
	StopOff  int64 // where scanning stopped
	StopWhy  string
	Trailers []int64 // offsets of zero-block runs
}

func Scan(img []byte) ScanResult {
	res := ScanResult{}
	off := int64(0)
	n := int64(len(img))
	for off+512 <= n {
		blk := img[off : off+512]
		if isZero(blk) {
			res.Trailers = append(res.Trailers, off)
			off += 512
			continue
		}
		if !checksumOK(blk) {
			res.StopOff, res.StopWhy = off, "bad header checksum"
			return res
		}
		rec := Rec{Off: off}
		cur := off
		var pax map[string]string
		for {
			if cur+512 > n {
				res.StopOff, res.StopWhy = off, "truncated header"
				return res
			}
			h := img[cur : cur+512]
			if !checksumOK(h) {
				res.StopOff, res.StopWhy = off, "bad header checksum after extended header"
				return res
			}
			tf := h[156]
			size := octal(h[124:136])
			if tf == 'x' || tf == 'g' || tf == 'L' || tf == 'K' {
				dend := cur + 512 + (size+511)/512*512
				if dend > n || cur+512+size > n {
					res.StopOff, res.StopWhy = off, "truncated extended header"
					return res
				}
				if tf == 'x' {
					pax = parsePax(img[cur+512 : cur+512+size])
				}
				cur = dend
				continue
			}
			rec.HdrOff = cur
			rec.Type = tf
			rec.Name = strings.TrimRight(string(h[0:100]), "\x00")
			rec.Size = size
			if pax != nil {
				if v, ok := pax["size"]; ok {
					fmt.Sscanf(v, "%d", &rec.Size)
				}
				if v, ok := pax["path"]; ok {
					rec.Name = v
				}
			}
			rec.Pax = pax
			if tf != tar.TypeReg && tf != tar.TypeRegA && tf != tar.TypeCont && tf != 'S' {
				// headers of non-regular entries carry no payload (archive/tar ignores size for them)
				if tf == tar.TypeDir || tf == tar.TypeSymlink || tf == tar.TypeLink || tf == tar.TypeChar || tf == tar.TypeBlock || tf == tar.TypeFifo {
					rec.Size = 0
				}
			}
			rec.DataOff = cur + 512
			rec.End = rec.DataOff + (rec.Size+511)/512*512
			break
		}
		if rec.DataOff+rec.Size > n {
			res.StopOff, res.StopWhy = off, "truncated payload"
			return res
		}
		if rec.End > n {
			res.StopOff, res.StopWhy = off, "truncated padding"
			return res
		}
		res.Recs = append(res.Recs, rec)
		off = rec.End
	}
	if off == n {
		res.Complete = true
	} else {
		res.StopOff, res.StopWhy = off, "partial block at end"
	}
	return res
}
