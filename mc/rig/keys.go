package rig

import (
	"crypto/rand"
	"database/sql"
	"encoding/json"
	"fmt"
	"os"
	"reflect"
	"unsafe"

	"aead.dev/minisign"
	"filippo.io/age"
	"github.com/pojntfx/stfs/pkg/config"
	"github.com/pojntfx/stfs/pkg/keys"
	"github.com/pojntfx/stfs/pkg/persisters"
	"github.com/pojntfx/stfs/pkg/utility"
)

// Keys holds key material in forms that parse without an expensive KDF (minisign private key in raw text form,
// age identity unencrypted, PGP keys locked with a short password).
type Keys struct {
	AgePriv  string `json:"age_priv"`
	AgePub   string `json:"age_pub"`
	PGPPriv  []byte `json:"pgp_priv"`
	PGPPub   []byte `json:"pgp_pub"`
	PGPPass  string `json:"pgp_pass"`
	MiniPriv string `json:"mini_priv"`
	MiniPub  string `json:"mini_pub"`
	Other    *Keys  `json:"other,omitempty"` // a second, unrelated set

	parsed map[string]interface{}
}

func genOne() (*Keys, error) {
	k := &Keys{PGPPass: "pw"}
	id, err := age.GenerateX25519Identity()
	if err != nil {
		return nil, err
	}
	k.AgePriv, k.AgePub = id.String(), id.Recipient().String()
	priv, pub, err := utility.Keygen(config.PipeConfig{Encryption: config.EncryptionFormatPGPKey}, config.PasswordConfig{Password: k.PGPPass})
	if err != nil {
		return nil, err
	}
	k.PGPPriv, k.PGPPub = priv, pub
	mpub, mpriv, err := minisign.GenerateKey(rand.Reader)
	if err != nil {
		return nil, err
	}
	pt, err := mpriv.MarshalText()
	if err != nil {
		return nil, err
	}
	k.MiniPriv, k.MiniPub = string(pt), mpub.String()
	return k, nil
}

func GenerateKeys() (*Keys, error) {
	a, err := genOne()
	if err != nil {
		return nil, err
	}
	b, err := genOne()
	if err != nil {
		return nil, err
	}
	a.Other = b
	return a, nil
}

func LoadKeys(path string) (*Keys, error) {
	b, err := os.ReadFile(path)
	if err != nil {
		return nil, err
	}
	k := &Keys{}
	if err := json.Unmarshal(b, k); err != nil {
		return nil, err
	}
	return k, nil
}

func (k *Keys) Save(path string) error {
	b, _ := json.Marshal(k)
	return os.WriteFile(path, b, 0o600)
}

func (k *Keys) memo(name string, f func() (interface{}, error)) (interface{}, error) {
	if k.parsed == nil {
		k.parsed = map[string]interface{}{}
	}
	if v, ok := k.parsed[name]; ok {
		return v, nil
	}
	v, err := f()
	if err != nil {
		return nil, fmt.Errorf("key %s: %w", name, err)
	}
	k.parsed[name] = v
	return v, nil
}

// Signer returns (recipient from k, identity from w): k is the reading key set, w the writing key set.
func (k *Keys) Signer(format string, w *Keys) (recipient, identity interface{}, err error) {
	switch format {
	case config.SignatureFormatMinisignKey:
		recipient, err = k.memo("mini-pub", func() (interface{}, error) {
			return keys.ParseSignerRecipient(format, []byte(k.MiniPub))
		})
		if err != nil {
			return
		}
		identity, err = w.memo("mini-priv", func() (interface{}, error) {
			var p minisign.PrivateKey
			if err := p.UnmarshalText([]byte(w.MiniPriv)); err != nil {
				return nil, err
			}
			return p, nil
		})
	case config.SignatureFormatPGPKey:
		recipient, err = k.memo("pgp-pub", func() (interface{}, error) { return keys.ParseSignerRecipient(format, k.PGPPub) })
		if err != nil {
			return
		}
		identity, err = w.memo("pgp-priv", func() (interface{}, error) { return keys.ParseSignerIdentity(format, w.PGPPriv, w.PGPPass) })
	default:
		err = fmt.Errorf("unknown signature format %q", format)
	}
	return
}

// Encrypter returns (recipient from w, identity from k).
func (k *Keys) Encrypter(format string, w *Keys) (recipient, identity interface{}, err error) {
	switch format {
	case config.EncryptionFormatAgeKey:
		recipient, err = w.memo("age-pub", func() (interface{}, error) { return keys.ParseRecipient(format, []byte(w.AgePub)) })
		if err != nil {
			return
		}
		identity, err = k.memo("age-priv", func() (interface{}, error) { return keys.ParseIdentity(format, []byte(k.AgePriv), "") })
	case config.EncryptionFormatPGPKey:
		recipient, err = w.memo("pgp-pub", func() (interface{}, error) { return keys.ParseRecipient(format, w.PGPPub) })
		if err != nil {
			return
		}
		identity, err = k.memo("pgp-priv", func() (interface{}, error) { return keys.ParseIdentity(format, k.PGPPriv, k.PGPPass) })
	default:
		err = fmt.Errorf("unknown encryption format %q", format)
	}
	return
}

// closeDB closes the *sql.DB inside the persister (it has no Close method); failure only leaks a descriptor.
func closeDB(mp *persisters.MetadataPersister) {
	defer func() { _ = recover() }()
	v := reflect.ValueOf(mp).Elem().FieldByName("sqlite")
	if !v.IsValid() {
		return
	}
	v = reflect.NewAt(v.Type(), unsafe.Pointer(v.UnsafeAddr())).Elem()
	dbf := v.Elem().FieldByName("DB")
	if !dbf.IsValid() {
		return
	}
	if db, ok := dbf.Interface().(*sql.DB); ok && db != nil {
		_ = db.Close()
	}
}
