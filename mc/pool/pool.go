// Package pool farms jobs out to worker processes (`stfsmc worker`), one JSON line per request/response.
package pool

import (
	"bufio"
	"encoding/json"
	"fmt"
	"io"
	"os"
	"os/exec"
	"strings"
	"sync"
	"time"
)

type Request struct {
	ID      int             `json:"id"`
	Kind    string          `json:"kind"`
	Payload json.RawMessage `json:"payload"`
}

type Response struct {
	ID     int             `json:"id"`
	Result json.RawMessage `json:"result,omitempty"`
	Err    string          `json:"err,omitempty"`    // infrastructure failure: worker died / timeout (never a verdict)
	Retire bool            `json:"retire,omitempty"` // worker asks to be recycled
}

type worker struct {
	cmd    *exec.Cmd
	in     io.WriteCloser
	out    *bufio.Reader
	stderr *tailBuf
	jobs   int
}

type tailBuf struct {
	mu sync.Mutex
	b  []byte
}

func (t *tailBuf) Write(p []byte) (int, error) {
	t.mu.Lock()
	defer t.mu.Unlock()
	t.b = append(t.b, p...)
	if len(t.b) > 8192 {
		t.b = t.b[len(t.b)-8192:]
	}
	return len(p), nil
}
func (t *tailBuf) String() string { t.mu.Lock(); defer t.mu.Unlock(); return string(t.b) }

type Pool struct {
	Exe        string
	N          int
	MaxJobs    int           // recycle a worker after this many jobs
	JobTimeout time.Duration // infrastructure protection only
	Env        []string

	Stop func() bool // when it returns true, remaining jobs are answered with Err="skipped"

	Died     int
	TimedOut int
	mu       sync.Mutex
}

func (p *Pool) start() (*worker, error) {
	cmd := exec.Command(p.Exe, "worker")
	cmd.Env = append(os.Environ(), p.Env...)
	in, err := cmd.StdinPipe()
	if err != nil {
		return nil, err
	}
	out, err := cmd.StdoutPipe()
	if err != nil {
		return nil, err
	}
	tb := &tailBuf{}
	cmd.Stderr = tb
	if err := cmd.Start(); err != nil {
		return nil, err
	}
	return &worker{cmd: cmd, in: in, out: bufio.NewReaderSize(out, 1<<20), stderr: tb}, nil
}

func (w *worker) stop() {
	if w == nil {
		return
	}
	_ = w.in.Close()
	done := make(chan struct{})
	go func() { _ = w.cmd.Wait(); close(done) }()
	select {
	case <-done:
	case <-time.After(2 * time.Second):
		_ = w.cmd.Process.Kill()
		<-done
	}
}

// Map runs all requests and calls done (serialised) for each response. Order of completion is arbitrary.
func (p *Pool) Map(kind string, payloads []interface{}, done func(i int, resp *Response)) {
	if p.N <= 0 {
		p.N = 16
	}
	if p.MaxJobs <= 0 {
		p.MaxJobs = 400
	}
	if p.JobTimeout <= 0 {
		p.JobTimeout = 120 * time.Second
	}
	idx := make(chan int, len(payloads))
	for i := range payloads {
		idx <- i
	}
	close(idx)
	var wg sync.WaitGroup
	var doneMu sync.Mutex
	n := p.N
	if n > len(payloads) {
		n = len(payloads)
	}
	for k := 0; k < n; k++ {
		wg.Add(1)
		go func() {
			defer wg.Done()
			var w *worker
			defer func() { w.stop() }()
			for i := range idx {
				if p.Stop != nil && p.Stop() {
					doneMu.Lock()
					done(i, &Response{ID: i, Err: "skipped"})
					doneMu.Unlock()
					continue
				}
				if w == nil {
					var err error
					w, err = p.start()
					if err != nil {
						doneMu.Lock()
						done(i, &Response{ID: i, Err: "cannot start worker: " + err.Error()})
						doneMu.Unlock()
						continue
					}
				}
				pl, err := json.Marshal(payloads[i])
				if err != nil {
					panic(err)
				}
				req, _ := json.Marshal(Request{ID: i, Kind: kind, Payload: pl})
				resp := p.roundTrip(w, req, i)
				w.jobs++
				if resp.Err != "" || resp.Retire || w.jobs >= p.MaxJobs {
					if resp.Err != "" {
						_ = w.cmd.Process.Kill()
					}
					w.stop()
					w = nil
				}
				doneMu.Lock()
				done(i, resp)
				doneMu.Unlock()
			}
		}()
	}
	wg.Wait()
}

func (p *Pool) roundTrip(w *worker, req []byte, id int) *Response {
	type rd struct {
		line []byte
		err  error
	}
	ch := make(chan rd, 1)
	go func() {
		if _, err := w.in.Write(append(req, '\n')); err != nil {
			ch <- rd{nil, err}
			return
		}
		line, err := w.out.ReadBytes('\n')
		ch <- rd{line, err}
	}()
	select {
	case r := <-ch:
		if r.err != nil {
			p.mu.Lock()
			p.Died++
			p.mu.Unlock()
			tail := w.stderr.String()
			if len(tail) > 3000 {
				tail = tail[len(tail)-3000:]
			}
			return &Response{ID: id, Err: fmt.Sprintf("worker died (%v); stderr tail:\n%s", r.err, strings.TrimSpace(tail))}
		}
		resp := &Response{}
		if err := json.Unmarshal(r.line, resp); err != nil {
			return &Response{ID: id, Err: "bad response: " + err.Error() + ": " + string(r.line[:min(len(r.line), 200)])}
		}
		return resp
	case <-time.After(p.JobTimeout):
		p.mu.Lock()
		p.TimedOut++
		p.mu.Unlock()
		_ = w.cmd.Process.Kill()
		return &Response{ID: id, Err: "timeout (infrastructure limit); inconclusive"}
	}
}

func min(a, b int) int {
	if a < b {
		return a
	}
	return b
}
