package engines

import (
	"archive/tar"
	"bytes"
	"encoding/base64"
	"encoding/json"
	"fmt"
	"os"
	"sort"
	"strings"

	"github.com/pojntfx/stfs/pkg/config"
	"github.com/pojntfx/stfs/pkg/encryption"
	"github.com/pojntfx/stfs/pkg/recovery"
	"github.com/pojntfx/stfs/pkg/signature"
	"github.com/pojntfx/stfs/pkg/zzverif/vsync"
	"github.com/pojntfx/stfs/pkg/zzverif/zzx"
	"stfsmc/ops"
	"stfsmc/rig"
)

// Mut is one alteration of the tape: a byte replacement or a named structured forgery on record Rec.
type Mut struct {
	Pos   int64  `json:"pos,omitempty"`
	Val   int    `json:"val,omitempty"` // 1: b^0x01, 2: b^0x80, 3: 0x00
	Forge string `json:"forge,omitempty"`
	Rec   int    `json:"rec,omitempty"`
}

type C08Job struct {
	Cfg     rig.Config `json:"cfg"`
	Policy  string     `json:"policy,omitempty"` // quick | all | forge
	Shard   int        `json:"shard,omitempty"`
	NShards int        `json:"nshards,omitempty"`
	Muts    []Mut      `json:"muts,omitempty"`
}

type C08Res struct {
	Evals    int         `json:"evals"`
	Distinct []string    `json:"distinct"`
	TapeLen  int         `json:"tape_len"`
	Accepted int         `json:"accepted_headers"`
	Dropped  int         `json:"rebuild_errors"`
	Viol     []Violation `json:"viol,omitempty"`
	Info     ExecInfo    `json:"info"`
	Harness  string      `json:"harness,omitempty"`
}

// SignedHistory is the six-record history of the legitimate writer.
func SignedHistory() []ops.Op {
	return []ops.Op{
		{K: "mkdir", P: "/d"},
		{K: "put", P: "/d/a", C: "T700:1"},
		{K: "put", P: "/b", C: "first version of b"},
		{K: "put", P: "/b", C: "second, longer version of b!"},
		{K: "rename", P: "/d/a", Q: "/c"},
		{K: "put", P: "/e", C: "H:/evil"},
		{K: "remove", P: "/e"},
	}
}

func paxOf(h *config.Header) map[string]string {
	m := map[string]string{}
	_ = json.Unmarshal([]byte(h.Paxrecords), &m)
	return m
}

// canonHdr renders the security-relevant fields of a header in a form that is the same on the write side
// (before signing) and on the read side (after verification).
func canonHdr(h *config.Header, cfg rig.Config) string {
	pax := paxOf(h)
	name := h.Name
	if h.Typeflag == int64(tar.TypeReg) || h.Typeflag == 0 {
		if n, err := zzx.RemoveSuffix(name, cfg.Compression, cfg.Encryption); err == nil {
			name = n
		}
	}
	size := fmt.Sprint(h.Size)
	if v, ok := pax["STFS.UncompressedSize"]; ok {
		size = v
	}
	keys := []string{}
	for k := range pax {
		if strings.HasPrefix(k, "STFS.") && k != "STFS.UncompressedSize" {
			keys = append(keys, k)
		}
	}
	sort.Strings(keys)
	ps := []string{}
	for _, k := range keys {
		ps = append(ps, k+"="+pax[k])
	}
	return fmt.Sprintf("t=%d|n=%s|l=%s|s=%s|m=%o|u=%d|g=%d|mt=%d|%s", h.Typeflag, name, h.Linkname, size, h.Mode, h.UID, h.Gid, h.Modtime.UnixNano(), strings.Join(ps, ","))
}

// indexCollect replays the tape of st into its index with the real decrypt/verify callbacks, collecting accepted headers.
func indexCollect(st *rig.Stack, overwrite bool, cb func(h *config.Header)) error {
	ro := st.ReadOps
	reader, err := ro.GetBackend().GetReader()
	if err != nil {
		return fmt.Errorf("GetReader: %w", err)
	}
	ierr := recovery.Index(reader, ro.GetBackend().MagneticTapeIO, ro.GetMetadata(), ro.GetPipes(), ro.GetCrypto(),
		0, 0, overwrite, false, 0,
		func(hdr *tar.Header, i int) error {
			return encryption.DecryptHeader(hdr, ro.GetPipes().Encryption, ro.GetCrypto().Identity)
		},
		func(hdr *tar.Header, isRegular bool) error {
			return signature.VerifyHeader(hdr, isRegular, ro.GetPipes().Signature, ro.GetCrypto().Recipient)
		},
		cb,
	)
	_ = ro.GetBackend().CloseReader()
	return ierr
}

func RunC08(env *Env, job *C08Job) *C08Res {
	res := &C08Res{}
	ph := &Phase{Name: "build"}
	cfg := job.Cfg.Normalised()
	pipe := fmt.Sprintf("sig=%s|enc=%s|comp=%s", nzs(cfg.Signature), nzs(cfg.Encryption), nzs(cfg.Compression))
	var curMut *Mut
	viol := func(class, detail string) {
		res.Viol = append(res.Viol, Violation{Prop: "C08", Class: class, Detail: detail, Mut: curMut})
	}
	distinct := map[string]bool{}
	info := RunManaged(ph, func() {
		st, err := rig.NewStack(env.TempDir(), job.Cfg, env.Keys)
		if err != nil {
			res.Harness = "NewStack: " + err.Error()
			return
		}
		signed := map[string]bool{}
		contents := map[string]string{} // content signature -> data key
		var lastContent []byte
		st.OnWriteHeader = func(ev *config.HeaderEvent) {
			if ev.Indexed {
				return
			}
			signed[canonHdr(ev.Header, cfg)] = true
			if sig, ok := paxOf(ev.Header)["STFS.Signature"]; ok && sig != "" {
				// later metadata/move/delete records repeat the content signature of the record they refer to
				if _, seen := contents[sig]; !seen {
					contents[sig] = rig.DataKey(lastContent)
				}
			}
		}
		if err := st.Init(); err != nil {
			res.Harness = "Initialize: " + err.Error()
			return
		}
		for _, o := range SignedHistory() {
			lastContent = ops.Content(o.C)
			if err := ops.ExecImpl(st, o); err != nil {
				res.Harness = fmt.Sprintf("legitimate history: %s: %v", o, err)
				return
			}
			vsync.Quiesce()
		}
		T := readTape(st)
		st.Close()
		res.TapeLen = len(T)
		scan := rig.Scan(T)
		if !scan.Complete {
			res.Harness = "the legitimate tape does not scan: " + scan.StopWhy
			return
		}
		// enumerate mutations
		muts := job.Muts
		if job.Policy != "" {
			all := []Mut{}
			switch job.Policy {
			case "forge":
				for i := range scan.Recs {
					for _, f := range forgeries {
						all = append(all, Mut{Forge: f, Rec: i})
					}
				}
				for _, f := range appendForgeries {
					all = append(all, Mut{Forge: f, Rec: len(scan.Recs) - 1})
				}
			default:
				inHeader := func(p int64) bool {
					for _, r := range scan.Recs {
						if p >= r.Off && p < r.DataOff {
							return true
						}
					}
					return false
				}
				for p := int64(0); p < int64(len(T)); p++ {
					if job.Policy == "quick" {
						if inHeader(p) {
							if T[p] == 0 && p%5 != 0 { // header padding: every fifth zero byte
								continue
							}
							if T[p] != 0 && p%2 != 0 { // every second non-zero header byte
								continue
							}
						} else if p%16 != 0 {
							continue
						}
					}
					for v := 1; v <= 3; v++ {
						if v == 3 && T[p] == 0 {
							continue
						}
						all = append(all, Mut{Pos: p, Val: v})
					}
				}
			}
			muts = nil
			for i, m := range all {
				if job.NShards <= 1 || i%job.NShards == job.Shard {
					muts = append(muts, m)
				}
			}
		}
		for mi := range muts {
			m := muts[mi]
			curMut = &muts[mi]
			img, desc, where := applyMut(env, cfg, T, scan, m)
			if img == nil {
				continue
			}
			res.Evals++
			violBefore := len(res.Viol)
			distinct[pipe+"|"+where] = true
			ph.Name = "judge " + desc
			dir := env.TempDir()
			if err := os.WriteFile(dir+"/drive.tar", img, 0o600); err != nil {
				continue
			}
			vs, err := rig.NewStack(dir, job.Cfg, env.Keys)
			if err != nil {
				continue
			}
			vs.ReadBudget = 64*(len(img)/512+1) + 8192
			accepted := []string{}
			var ierr error
			_, pan := Guard(func() error {
				ierr = indexCollect(vs, true, func(h *config.Header) { accepted = append(accepted, canonHdr(h, cfg)) })
				return nil
			})
			vsync.Quiesce()
			ctx := fmt.Sprintf("pipeline %s; legitimate tape of %d bytes; alteration: %s", pipe, len(T), desc)
			if pan != "" {
				viol(fmt.Sprintf("C08|panic|%s|%s", pipe, where), ctx+"\n"+pan)
				vs.Close()
				continue
			}
			if vs.BudgetExceeded {
				viol(fmt.Sprintf("C08|no-progress|%s|%s", pipe, where), ctx+"\nthe indexer exceeded the drive-reader step budget")
				vs.Close()
				continue
			}
			vs.ReadBudget = 0
			if ierr != nil {
				res.Dropped++
			}
			res.Accepted += len(accepted)
			bad := false
			for _, a := range accepted {
				if !signed[a] {
					viol(fmt.Sprintf("C08|accepted-unsigned-header|%s|%s", pipe, where), ctx+"\nthe indexer accepted a header the legitimate writer never signed:\n  "+a)
					bad = true
					break
				}
			}
			if !bad {
				// every restorable regular file returns the content signed under its header, or an error
				rows, _ := rig.DumpIndex(vs.Index)
				for _, r := range rows {
					if r.Deleted == 1 || r.Typeflag != int64(tar.TypeReg) {
						continue
					}
					pax := map[string]string{}
					_ = json.Unmarshal([]byte(r.Pax), &pax)
					var data []byte
					var ferr error
					_, pan := Guard(func() error { data, _, ferr = fetchAt(vs, r.Record, r.Block); return nil })
					vsync.Quiesce()
					if pan != "" {
						viol(fmt.Sprintf("C08|restore-panic|%s|%s", pipe, where), ctx+"\n"+pan)
						break
					}
					if ferr != nil {
						continue
					}
					want, ok := contents[pax["STFS.Signature"]]
					if r.Size == 0 && len(data) == 0 {
						continue
					}
					if !ok || want != rig.DataKey(data) {
						viol(fmt.Sprintf("C08|restored-unsigned-content|%s|%s", pipe, where), ctx+fmt.Sprintf("\nrestoring %s succeeded and returned %s; the content signed under that header is %q", r.Name, rig.DataKey(data), want))
						bad = true
						break
					}
				}
			}
			if !bad {
				// the same through the file API (Open + Read until EOF + Close): the streaming read path hands the
				// restore a pipe, so "an error" has to arrive at the reader, not only at the restore's caller
				vs.ComposeFromIndex()
				rows, _ := rig.DumpIndex(vs.Index)
				for _, r := range rows {
					if vs.AFS == nil {
						break
					}
					if r.Deleted == 1 || r.Typeflag != int64(tar.TypeReg) || r.Linkname != "" {
						continue
					}
					pax := map[string]string{}
					_ = json.Unmarshal([]byte(r.Pax), &pax)
					var data []byte
					var rerr error
					_, pan := Guard(func() error { data, rerr = rig.ReadFile(vs.AFS, rig.NormName(r.Name)); return nil })
					vsync.Quiesce()
					if pan != "" {
						viol(fmt.Sprintf("C08|read-panic|%s|%s", pipe, where), ctx+"\n"+pan)
						break
					}
					if rerr != nil {
						continue
					}
					want, ok := contents[pax["STFS.Signature"]]
					if r.Size == 0 && len(data) == 0 {
						continue
					}
					if !ok || want != rig.DataKey(data) {
						_, _, ferr := fetchAt(vs, r.Record, r.Block)
						viol(fmt.Sprintf("C08|read-unsigned-content|%s|%s", pipe, where), ctx+fmt.Sprintf("\nOpen+Read+Close of %s reported no error and returned %s; the content signed under that header is %q (a restore of the same position reports: %v)", r.Name, rig.DataKey(data), want, ferr))
						break
					}
				}
			}
			if !bad && len(res.Viol) == violBefore && strings.Contains(where, "payload") {
				// the write path loads the existing content into the write cache first: a file whose content was altered must not
				// become writable by simply trying again (the retried write must not store, and re-sign, unverified content)
				rows, _ := rig.DumpIndex(vs.Index)
				for _, r := range rows {
					if vs.AFS == nil {
						break
					}
					if r.Deleted == 1 || r.Typeflag != int64(tar.TypeReg) || r.Linkname != "" || r.Size == 0 {
						continue
					}
					pax := map[string]string{}
					_ = json.Unmarshal([]byte(r.Pax), &pax)
					want, known := contents[pax["STFS.Signature"]]
					name := rig.NormName(r.Name)
					var data []byte
					var rerr error
					wrote := 0
					_, pan := Guard(func() error {
						f, err := vs.AFS.OpenFile(name, os.O_RDWR|os.O_APPEND, 0o644)
						if err != nil {
							return nil
						}
						for i := 0; i < 2; i++ {
							if _, err := f.Write([]byte("+")); err == nil {
								wrote++
							}
						}
						_ = f.Close()
						data, rerr = rig.ReadFile(vs.AFS, name)
						return nil
					})
					vsync.Quiesce()
					if pan != "" {
						viol(fmt.Sprintf("C08|write-path-panic|%s|%s", pipe, where), ctx+"\n"+pan)
						break
					}
					if rerr != nil || wrote == 0 {
						continue
					}
					// the content now on record must be the signed content plus what was appended
					okData := false
					for k := 1; k <= 2; k++ {
						if len(data) >= k && known && rig.DataKey(data[:len(data)-k]) == want && strings.Repeat("+", k) == string(data[len(data)-k:]) {
							okData = true
						}
					}
					if !okData {
						viol(fmt.Sprintf("C08|write-path-stored-unsigned-content|%s|%s", pipe, where), ctx+fmt.Sprintf("\nOpenFile(%s, RDWR|APPEND); Write; Write; Close: %d of the two writes succeeded and the file now reads %s without error; the content signed under its header is %q", name, wrote, rig.DataKey(data), want))
						break
					}
				}
			}
			vs.Close()
		}
	})
	res.Info = info
	if info.Hang != nil && phaseKind(info.Hang.Phase) != "build" {
		viol(fmt.Sprintf("C08|hang|%s|%s", pipe, info.Hang.Key()), fmt.Sprintf("deadlock in phase %q; waiters %+v", info.Hang.Phase, info.Hang.Waiters))
	}
	for _, c := range info.Crashes {
		viol(fmt.Sprintf("C08|bg-panic|%s|%s", pipe, NormErr(fmt.Errorf("%s", c))), "background goroutine panicked: "+c)
	}
	if info.ClientPanic != "" && res.Harness == "" {
		res.Harness = "client thread panicked outside a guarded call: " + info.ClientPanic
	}
	for d := range distinct {
		res.Distinct = append(res.Distinct, d)
	}
	sort.Strings(res.Distinct)
	return res
}

var forgeries = []string{
	"edit-name/sig-kept", "edit-size/sig-kept", "edit-mode/sig-kept", "edit-action/sig-kept", "edit-contentsig/sig-kept",
	"edit-name/sig-removed", "edit-name/sig-empty", "edit-name/sig-not-base64", "edit-name/sig-base64-garbage", "edit-name/sig-wrong-packet",
	"reencode/sig-kept", "swap-sig-with-next", "resign-with-second-key", "outer-size-changed", "payload-replaced",
}
var appendForgeries = []string{"append-plain-record", "append-embedded-only", "append-signature-only"}

// applyMut returns the altered image, a description, and a position class for coverage/class keys.
func applyMut(env *Env, cfg rig.Config, T []byte, scan rig.ScanResult, m Mut) ([]byte, string, string) {
	if m.Forge == "" {
		if m.Pos < 0 || m.Pos >= int64(len(T)) {
			return nil, "", ""
		}
		img := append([]byte(nil), T...)
		switch m.Val {
		case 1:
			img[m.Pos] ^= 0x01
		case 2:
			img[m.Pos] ^= 0x80
		default:
			img[m.Pos] = 0
		}
		where := "trailer"
		for _, r := range scan.Recs {
			if m.Pos >= r.Off && m.Pos < r.End {
				where = recAction(r) + "/" + cutPart(r, m.Pos)
				if cfg.Encryption != "" {
					where = "record/" + cutPart(r, m.Pos)
				}
			}
		}
		return img, fmt.Sprintf("byte %d: %#02x -> %#02x (%s)", m.Pos, T[m.Pos], img[m.Pos], where), "byte|" + where
	}
	where := "forge|" + m.Forge
	if cfg.Encryption != "" {
		return nil, "", "" // structured forgeries need readable wrappers; byte alterations cover encrypted tapes
	}
	if m.Rec < 0 || m.Rec >= len(scan.Recs) {
		return nil, "", ""
	}
	rec := scan.Recs[m.Rec]
	raw := T[rec.Off:rec.End]
	tr := tar.NewReader(bytes.NewReader(append(append([]byte(nil), raw...), make([]byte, 1024)...)))
	hdr, err := tr.Next()
	if err != nil {
		return nil, "", ""
	}
	payload := T[rec.DataOff : rec.DataOff+rec.Size]
	emb := hdr.PAXRecords["STFS.EmbeddedHeader"]
	sig := hdr.PAXRecords["STFS.Signature"]
	var inner tar.Header
	if err := json.Unmarshal([]byte(emb), &inner); err != nil {
		return nil, "", ""
	}
	reenc := func(h *tar.Header, pl []byte) []byte {
		var buf bytes.Buffer
		tw := tar.NewWriter(&buf)
		h.Format = tar.FormatPAX
		if err := tw.WriteHeader(h); err != nil {
			return nil
		}
		_, _ = tw.Write(pl)
		_ = tw.Flush()
		return buf.Bytes()
	}
	splice := func(newRec []byte) []byte {
		if newRec == nil {
			return nil
		}
		out := append([]byte(nil), T[:rec.Off]...)
		out = append(out, newRec...)
		return append(out, T[rec.End:]...)
	}
	parts := strings.SplitN(m.Forge, "/", 2)
	edit := func() {
		switch parts[0] {
		case "edit-name":
			inner.Name = "/forged" + inner.Name
		case "edit-size":
			inner.Size++
			if inner.PAXRecords != nil && inner.PAXRecords["STFS.UncompressedSize"] != "" {
				inner.PAXRecords["STFS.UncompressedSize"] += "0"
			}
		case "edit-mode":
			inner.Mode = 0o4777
		case "edit-action":
			if inner.PAXRecords == nil {
				inner.PAXRecords = map[string]string{}
			}
			inner.PAXRecords["STFS.Version"] = "1"
			inner.PAXRecords["STFS.Action"] = "DELETE"
		case "edit-contentsig":
			if inner.PAXRecords == nil {
				inner.PAXRecords = map[string]string{}
			}
			inner.PAXRecords["STFS.Signature"] = base64.StdEncoding.EncodeToString([]byte("not the content signature"))
		}
	}
	switch {
	case strings.HasPrefix(m.Forge, "edit-"):
		edit()
		b, _ := json.Marshal(&inner)
		hdr.PAXRecords["STFS.EmbeddedHeader"] = string(b)
		switch parts[1] {
		case "sig-kept":
		case "sig-removed":
			delete(hdr.PAXRecords, "STFS.Signature")
		case "sig-empty":
			hdr.PAXRecords["STFS.Signature"] = " "
		case "sig-not-base64":
			hdr.PAXRecords["STFS.Signature"] = "***not base64***"
		case "sig-base64-garbage":
			hdr.PAXRecords["STFS.Signature"] = base64.StdEncoding.EncodeToString([]byte("garbage that is not a signature packet at all"))
		case "sig-wrong-packet":
			// a well-formed OpenPGP packet that is not a signature: a literal data packet (tag 11)
			pkt := append([]byte{0xCB, 0x0a, 'b', 0x00, 0, 0, 0, 0}, []byte("data")...)
			hdr.PAXRecords["STFS.Signature"] = base64.StdEncoding.EncodeToString(pkt)
		}
		return splice(reenc(hdr, payload)), fmt.Sprintf("record %d: %s", m.Rec, m.Forge), where
	case m.Forge == "reencode/sig-kept":
		// unmarshal + marshal the embedded header: same meaning, possibly different bytes
		b, _ := json.Marshal(&inner)
		if string(b) == emb {
			var generic map[string]interface{}
			_ = json.Unmarshal([]byte(emb), &generic)
			b, _ = json.MarshalIndent(generic, "", " ")
		}
		hdr.PAXRecords["STFS.EmbeddedHeader"] = string(b)
		return splice(reenc(hdr, payload)), fmt.Sprintf("record %d: embedded header re-encoded, signature kept", m.Rec), where
	case m.Forge == "swap-sig-with-next":
		if m.Rec+1 >= len(scan.Recs) {
			return nil, "", ""
		}
		nx := scan.Recs[m.Rec+1]
		tr2 := tar.NewReader(bytes.NewReader(append(append([]byte(nil), T[nx.Off:nx.End]...), make([]byte, 1024)...)))
		h2, err := tr2.Next()
		if err != nil {
			return nil, "", ""
		}
		hdr.PAXRecords["STFS.Signature"] = h2.PAXRecords["STFS.Signature"]
		return splice(reenc(hdr, payload)), fmt.Sprintf("record %d carries the signature of record %d", m.Rec, m.Rec+1), where
	case m.Forge == "resign-with-second-key":
		_, id, err := env.Keys.Other.Signer(cfg.Signature, env.Keys.Other)
		if err != nil {
			return nil, "", ""
		}
		inner.Name = "/forged" + inner.Name
		b, _ := json.Marshal(&inner)
		s2, err := signature.SignString(string(b), true, cfg.Signature, id)
		if err != nil {
			return nil, "", ""
		}
		hdr.PAXRecords["STFS.EmbeddedHeader"] = string(b)
		hdr.PAXRecords["STFS.Signature"] = s2
		return splice(reenc(hdr, payload)), fmt.Sprintf("record %d: header edited and signed with a second key of the same format", m.Rec), where
	case m.Forge == "outer-size-changed":
		if len(payload) == 0 {
			return nil, "", ""
		}
		hdr.Size = int64(len(payload)) - 1
		return splice(reenc(hdr, payload[:len(payload)-1])), fmt.Sprintf("record %d: outer size reduced by one", m.Rec), where
	case m.Forge == "payload-replaced":
		if len(payload) == 0 {
			return nil, "", ""
		}
		pl := bytes.Repeat([]byte("X"), len(payload))
		return splice(reenc(hdr, pl)), fmt.Sprintf("record %d: payload replaced by other bytes of the same length", m.Rec), where
	case strings.HasPrefix(m.Forge, "append-"):
		h := &tar.Header{Typeflag: tar.TypeReg, Name: "/appended", Size: 4, Mode: 0o644, PAXRecords: map[string]string{}}
		switch m.Forge {
		case "append-embedded-only":
			in := tar.Header{Typeflag: tar.TypeReg, Name: "/appended", Size: 4, Mode: 0o644}
			b, _ := json.Marshal(&in)
			h.PAXRecords["STFS.EmbeddedHeader"] = string(b)
		case "append-signature-only":
			h.PAXRecords["STFS.Signature"] = sig
		}
		if len(h.PAXRecords) == 0 {
			h.PAXRecords = nil
		}
		var buf bytes.Buffer
		tw := tar.NewWriter(&buf)
		h.Format = tar.FormatPAX
		_ = tw.WriteHeader(h)
		_, _ = tw.Write([]byte("evil"))
		_ = tw.Close()
		return append(append([]byte(nil), T...), buf.Bytes()...), m.Forge, where
	}
	return nil, "", ""
}
