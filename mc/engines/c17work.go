package engines

import (
	"archive/tar"
	"bytes"
	"fmt"
	"os"
	"path"
	"sort"
	"strings"
	"time"

	"stfsmc/model"
	"stfsmc/ops"
)

// ForeignSpec describes a tar archive produced by a standard tar writer.
type ForeignSpec struct {
	Format    string `json:"format"`     // ustar | pax | gnu
	RootStyle string `json:"root_style"` // ./ | / | top/
	Shape     string `json:"shape"`      // tree shape, see ParseShape
	NameClass string `json:"name_class"` // short | c101 | p260
}

func (f ForeignSpec) String() string {
	return fmt.Sprintf("format=%s root=%q shape=%s names=%s", f.Format, f.RootStyle, f.Shape, f.NameClass)
}

// Shapes: "(" children ")" where a child is "f" (file) or a nested directory "(...)". E.g. "(f(f)(()f))".
type fnode struct {
	dir  bool
	kids []*fnode
}

func parseShape(s string) *fnode {
	pos := 0
	var rec func() *fnode
	rec = func() *fnode {
		n := &fnode{dir: true}
		pos++ // (
		for pos < len(s) && s[pos] != ')' {
			if s[pos] == 'f' {
				n.kids = append(n.kids, &fnode{})
				pos++
			} else {
				n.kids = append(n.kids, rec())
			}
		}
		pos++ // )
		return n
	}
	return rec()
}

// AllShapes enumerates every tree with depth <= 2 below the root and fan-out <= 2 (children as multisets).
func AllShapes() []string {
	lvl2 := []string{"()", "(f)", "(ff)"}
	child1 := append([]string{"f"}, lvl2...)
	lvl1 := []string{"()"}
	for i, a := range child1 {
		lvl1 = append(lvl1, "("+a+")")
		for _, b := range child1[i:] {
			lvl1 = append(lvl1, "("+a+b+")")
		}
	}
	child0 := append([]string{"f"}, lvl1...)
	out := []string{"()"}
	for i, a := range child0 {
		out = append(out, "("+a+")")
		for _, b := range child0[i:] {
			out = append(out, "("+a+b+")")
		}
	}
	return out
}

var foreignMtime = time.Unix(1500000000, 0).UTC()

type fentry struct {
	rel  string // path relative to the root, "" = root
	dir  bool
	data []byte
	mode int64
}

func foreignEntries(spec ForeignSpec) []fentry {
	root := parseShape(spec.Shape)
	out := []fentry{{rel: "", dir: true, mode: 0o755}}
	fileNo := 0
	comp := func(base string, i int) string {
		n := fmt.Sprintf("%s%d", base, i)
		switch spec.NameClass {
		case "c101":
			n += strings.Repeat("x", 101-len(n))
		case "p260":
			n += strings.Repeat("y", 90-len(n))
		case "dot":
			// hidden files and directories, what `tar -c .` in a home or project directory yields (.f0, ..d1)
			if base == "d" {
				n = ".." + n
			} else {
				n = "." + n
			}
		}
		return n
	}
	var rec func(n *fnode, rel string)
	rec = func(n *fnode, rel string) {
		for i, k := range n.kids {
			if k.dir {
				p := path.Join(rel, comp("d", i))
				out = append(out, fentry{rel: p, dir: true, mode: 0o750})
				rec(k, p)
			} else {
				p := path.Join(rel, comp("f", i))
				contents := []string{"", "hello", "T600:3"}
				out = append(out, fentry{rel: p, data: ops.Content(contents[fileNo%3]), mode: 0o640})
				fileNo++
			}
		}
	}
	rec(root, "")
	return out
}

// BuildForeign writes the archive and returns it together with the reference tree it describes.
func BuildForeign(spec ForeignSpec, uid, gid int) ([]byte, *model.FS, error) {
	var format tar.Format
	switch spec.Format {
	case "ustar":
		format = tar.FormatUSTAR
	case "pax":
		format = tar.FormatPAX
	case "gnu":
		format = tar.FormatGNU
	}
	var buf bytes.Buffer
	tw := tar.NewWriter(&buf)
	m := model.New(1000, 1000, 0o755)
	mt := foreignMtime.UnixNano()
	for _, e := range foreignEntries(spec) {
		name := spec.RootStyle + e.rel
		if e.rel == "" {
			name = spec.RootStyle
		} else if spec.RootStyle == "top/" || spec.RootStyle == "./" || spec.RootStyle == "/" {
			name = spec.RootStyle + e.rel
		}
		hdr := &tar.Header{Name: name, Mode: e.mode, Uid: 1000, Gid: 1000, ModTime: foreignMtime, Format: format}
		if e.dir {
			hdr.Typeflag = tar.TypeDir
			if !strings.HasSuffix(hdr.Name, "/") {
				hdr.Name += "/"
			}
		} else {
			hdr.Typeflag = tar.TypeReg
			hdr.Size = int64(len(e.data))
		}
		if err := tw.WriteHeader(hdr); err != nil {
			return nil, nil, err
		}
		if !e.dir {
			if _, err := tw.Write(e.data); err != nil {
				return nil, nil, err
			}
		}
		p := "/" + e.rel
		n := &model.Node{Dir: e.dir, Perm: uint32(e.mode), UID: 1000, GID: 1000, Mtime: &mt}
		if !e.dir {
			n.Data = e.data
		}
		m.N[model.Clean(p)] = n
	}
	if err := tw.Close(); err != nil {
		return nil, nil, err
	}
	_ = os.Getuid
	return buf.Bytes(), m, nil
}

// oracleC17 (initial state and every follow-up state): walk = reference; spellings interchangeable.
func (c *stepCtx) oracleC17() {
	spec := c.job.Foreign.String()
	roleOf := func(p string) string { return role(p, c.op) }
	if shape, detail := diffTrees(c.postTree, modelTree(c.m), false, roleOf); len(shape) > 0 {
		cls := fmt.Sprintf("C17|tree-differs|after=%s|format=%s|root=%s|names=%s|%s", c.shape, c.job.Foreign.Format, c.job.Foreign.RootStyle, c.job.Foreign.NameClass, strings.Join(shape, ","))
		c.viol("C17", cls, fmt.Sprintf("archive: %s\nhistory: %s\nthe call returned %v (reference: %q)\nfile system vs reference:\n  %s", spec, c.hist(), c.err, c.reason, strings.Join(detail, "\n  ")))
		return
	}
	// spellings
	paths := []string{}
	for _, e := range c.postTree {
		if e.Path != "/" {
			paths = append(paths, e.Path)
		}
	}
	sort.Strings(paths)
	for _, p := range paths {
		rel := strings.TrimPrefix(p, "/")
		var ref string
		for i, sp := range []string{p, rel, "./" + rel} {
			fi, err := c.st.AFS.Stat(sp)
			desc := "err"
			if err == nil {
				desc = fmt.Sprintf("%s|%d|%o|%v", fi.Name(), fi.Size(), fi.Mode().Perm(), fi.IsDir())
			}
			if i == 0 {
				ref = desc
				continue
			}
			if desc != ref {
				style := []string{"abs", "rel", "dot-rel"}[i]
				c.viol("C17", fmt.Sprintf("C17|spelling|%s|root=%s|err=%v", style, c.job.Foreign.RootStyle, err != nil),
					fmt.Sprintf("archive: %s\nhistory: %s\nStat(%q) gives %s but Stat(%q) gives %s", spec, c.hist(), p, ref, sp, desc))
			}
		}
	}
}
