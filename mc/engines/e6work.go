package engines

import (
	"bytes"
	"fmt"
	"io"
	"os"
	"strings"

	"github.com/pojntfx/stfs/pkg/zzverif/vsync"
	"github.com/spf13/afero"
	"stfsmc/ops"
	"stfsmc/rig"
)

// refFile is the reference: a byte array with a cursor (POSIX read/pread/write/pwrite/lseek/ftruncate).
type refFile struct {
	data     []byte
	pos      int64
	readable bool
	writable bool
	appendM  bool
}

type hres struct {
	n    int64 // count or offset
	err  bool
	eof  bool
	data []byte
	size int64 // Stat
}

// apply executes one handle call on the reference. okEOF reports whether err==EOF is acceptable besides nil.
func (r *refFile) apply(o ops.Op) (res hres, eofOK bool, eofMust bool) {
	switch o.K {
	case "h.read":
		n := int64(o.N)
		if !r.readable {
			return hres{err: true}, false, false
		}
		if n == 0 {
			return hres{}, false, false
		}
		if r.pos >= int64(len(r.data)) {
			return hres{eof: true}, true, true
		}
		avail := int64(len(r.data)) - r.pos
		if n >= avail {
			d := r.data[r.pos:]
			r.pos = int64(len(r.data))
			return hres{n: avail, data: append([]byte(nil), d...)}, true, false
		}
		d := r.data[r.pos : r.pos+n]
		r.pos += n
		return hres{n: n, data: append([]byte(nil), d...)}, false, false
	case "h.readat":
		n, off := int64(o.N), int64(o.H)
		if !r.readable || off < 0 {
			return hres{err: true}, false, false
		}
		if n == 0 {
			return hres{}, false, false
		}
		if off >= int64(len(r.data)) {
			return hres{eof: true}, true, true
		}
		avail := int64(len(r.data)) - off
		if n > avail {
			return hres{n: avail, data: append([]byte(nil), r.data[off:]...)}, true, true
		}
		return hres{n: n, data: append([]byte(nil), r.data[off:off+n]...)}, n == avail, false
	case "h.seek":
		off := int64(o.N)
		var base int64
		switch o.H {
		case io.SeekStart:
			base = 0
		case io.SeekCurrent:
			base = r.pos
		case io.SeekEnd:
			base = int64(len(r.data))
		default:
			return hres{err: true}, false, false
		}
		if base+off < 0 {
			return hres{err: true}, false, false
		}
		r.pos = base + off
		return hres{n: r.pos}, false, false
	case "h.write", "h.writestring":
		b := ops.Content(o.C)
		if !r.writable {
			return hres{err: true}, false, false
		}
		if r.appendM && len(b) > 0 { // a zero-length write has no effect, not even on the cursor of an O_APPEND handle
			r.pos = int64(len(r.data))
		}
		r.writeAt(b, r.pos)
		r.pos += int64(len(b))
		return hres{n: int64(len(b))}, false, false
	case "h.writeat":
		b := ops.Content(o.C)
		off := int64(o.H)
		if !r.writable || off < 0 {
			return hres{err: true}, false, false
		}
		r.writeAt(b, off)
		return hres{n: int64(len(b))}, false, false
	case "h.truncate":
		n := int64(o.N)
		if !r.writable || n < 0 {
			return hres{err: true}, false, false
		}
		if n <= int64(len(r.data)) {
			r.data = r.data[:n]
		} else {
			r.data = append(r.data, make([]byte, n-int64(len(r.data)))...)
		}
		return hres{}, false, false
	case "h.sync":
		return hres{}, false, false
	case "h.stat":
		return hres{size: int64(len(r.data))}, false, false
	}
	panic("refFile: unknown call " + o.K)
}

func (r *refFile) writeAt(b []byte, off int64) {
	if len(b) == 0 {
		return
	}
	end := off + int64(len(b))
	if end > int64(len(r.data)) {
		r.data = append(r.data, make([]byte, end-int64(len(r.data)))...)
	}
	copy(r.data[off:], b)
}

func implCall(f afero.File, o ops.Op) (res hres, rawErr error) {
	switch o.K {
	case "h.read":
		buf := make([]byte, o.N)
		n, err := f.Read(buf)
		res.n = int64(n)
		if n > 0 && n <= len(buf) {
			res.data = buf[:n]
		}
		rawErr = err
	case "h.readat":
		buf := make([]byte, o.N)
		n, err := f.ReadAt(buf, int64(o.H))
		res.n = int64(n)
		if n > 0 && n <= len(buf) {
			res.data = buf[:n]
		}
		rawErr = err
	case "h.seek":
		n, err := f.Seek(int64(o.N), o.H)
		res.n, rawErr = n, err
	case "h.write":
		n, err := f.Write(ops.Content(o.C))
		res.n, rawErr = int64(n), err
	case "h.writestring":
		n, err := f.WriteString(string(ops.Content(o.C)))
		res.n, rawErr = int64(n), err
	case "h.writeat":
		n, err := f.WriteAt(ops.Content(o.C), int64(o.H))
		res.n, rawErr = int64(n), err
	case "h.truncate":
		rawErr = f.Truncate(int64(o.N))
	case "h.sync":
		rawErr = f.Sync()
	case "h.stat":
		fi, err := f.Stat()
		rawErr = err
		if err == nil {
			res.size = fi.Size()
		}
	default:
		panic("implCall: unknown call " + o.K)
	}
	if rawErr == io.EOF {
		res.eof = true
	} else if rawErr != nil {
		res.err = true
	}
	return
}

func hcallString(o ops.Op) string {
	switch o.K {
	case "h.read":
		return fmt.Sprintf("Read(%d)", o.N)
	case "h.readat":
		return fmt.Sprintf("ReadAt(%d,off=%d)", o.N, o.H)
	case "h.seek":
		return fmt.Sprintf("Seek(%d,%d)", o.N, o.H)
	case "h.write":
		return fmt.Sprintf("Write(%q)", o.C)
	case "h.writestring":
		return fmt.Sprintf("WriteString(%q)", o.C)
	case "h.writeat":
		return fmt.Sprintf("WriteAt(%q,off=%d)", o.C, o.H)
	case "h.truncate":
		return fmt.Sprintf("Truncate(%d)", o.N)
	case "h.sync":
		return "Sync()"
	case "h.stat":
		return "Stat()"
	}
	return o.K
}

func hhist(job *E1Job) string {
	parts := []string{fmt.Sprintf("file %q; OpenFile(%s)", job.HInit, ops.FlagString(job.HFlags))}
	for _, o := range job.Hist {
		parts = append(parts, hcallString(o))
	}
	return strings.Join(parts, "; ")
}

// argument class of a call relative to the reference state before it (for class keys)
func hargClass(o ops.Op, r *refFile) string {
	l := int64(len(r.data))
	rel := func(x int64) string {
		switch {
		case x < 0:
			return "neg"
		case x == 0:
			return "0"
		case x < l:
			return "inside"
		case x == l:
			return "end"
		}
		return "beyond"
	}
	switch o.K {
	case "h.read":
		if o.N == 0 {
			return "n=0"
		}
		return "pos=" + rel(r.pos) + ",reach=" + rel(r.pos+int64(o.N))
	case "h.readat":
		return "off=" + rel(int64(o.H)) + ",reach=" + rel(int64(o.H)+int64(o.N))
	case "h.seek":
		base := int64(0)
		if o.H == 1 {
			base = r.pos
		} else if o.H == 2 {
			base = l
		}
		return fmt.Sprintf("whence=%d,pos=%s,target=%s", o.H, rel(r.pos), rel(base+int64(o.N)))
	case "h.write", "h.writestring":
		if len(ops.Content(o.C)) == 0 {
			return "empty,pos=" + rel(r.pos)
		}
		return "pos=" + rel(r.pos)
	case "h.writeat":
		return "off=" + rel(int64(o.H)) + ",pos=" + rel(r.pos)
	case "h.truncate":
		return "to=" + rel(int64(o.N))
	}
	return ""
}

// RunE6 executes a handle job: file with HInit content (or missing), OpenFile(HFlags), Hist of handle calls.
func RunE6(env *Env, job *E1Job) *E1Res {
	res := &E1Res{}
	ph := &Phase{Name: "setup"}
	viol := func(class, detail string) {
		res.Viol = append(res.Viol, Violation{Prop: "C14", Class: class, Detail: detail})
	}
	const path = "/f"
	info := RunManaged(ph, func() {
		st, err := rig.NewStack(env.TempDir(), job.Cfg, env.Keys)
		if err != nil {
			res.Harness = "NewStack: " + err.Error()
			return
		}
		defer st.Close()
		if err := st.Init(); err != nil {
			res.Harness = "Initialize: " + err.Error()
			return
		}
		ref := &refFile{}
		missing := job.HInit == "<missing>"
		if !missing {
			ref.data = ops.Content(job.HInit)
			if err := ops.ExecImpl(st, ops.Op{K: "put", P: path, C: job.HInit}); err != nil {
				res.Harness = "creating the initial file failed: " + err.Error()
				return
			}
			vsync.Quiesce()
		}
		st.OpenCaches = 0
		acc := job.HFlags & 3
		ref.readable = acc == os.O_RDONLY || acc == os.O_RDWR || (acc == os.O_WRONLY && job.Cfg.WPIR)
		ref.writable = acc == os.O_WRONLY || acc == os.O_RDWR
		ref.appendM = job.HFlags&os.O_APPEND != 0
		if job.HFlags&os.O_TRUNC != 0 && ref.writable {
			ref.data = nil
		}
		ph.Name = "open"
		f, err := st.FS.OpenFile(path, job.HFlags, 0o644)
		if err != nil {
			if missing && job.HFlags&os.O_CREATE == 0 {
				res.Key = "open-failed"
				res.Diverged = true
				return
			}
			viol(fmt.Sprintf("C14|open-failed|%s", ops.FlagString(job.HFlags)), fmt.Sprintf("%s\nOpenFile failed: %v", hhist(job), err))
			res.Diverged = true
			return
		}
		flagS := ""
		if job.HFlags&os.O_APPEND != 0 {
			flagS += "APPEND"
		}
		if job.HFlags&os.O_TRUNC != 0 {
			flagS += "TRUNC"
		}
		wcOf := func(mode string) string {
			if mode == "write" {
				return "write,wc=" + st.Cfg.WriteCache
			}
			return mode
		}
		n := len(job.Hist)
		for i, o := range job.Hist {
			ph.Name = fmt.Sprintf("call[%d] %s", i, hcallString(o))
			mode := "read"
			if st.OpenCaches > 0 {
				mode = "write"
			}
			argc := hargClass(o, ref)
			prevPos := ref.pos
			want, eofOK, eofMust := ref.apply(o)
			var got hres
			var raw error
			_, pan := Guard(func() error { got, raw = implCall(f, o); return nil })
			vsync.Quiesce()
			if i < n-1 {
				continue
			}
			if pan != "" {
				viol(fmt.Sprintf("C14|panic|%s|mode=%s", o.K, wcOf(mode)), hhist(job)+"\npanic: "+pan)
				res.Diverged = true
				break
			}
			// compare
			mism := []string{}
			benign := true // return-value-only difference on a call that failed on both sides
			if want.err {
				if !got.err {
					mism = append(mism, "no-error")
					benign = false
				} else if got.n != 0 {
					mism = append(mism, fmt.Sprintf("count-on-error=%d", got.n))
				}
			} else {
				if got.err {
					mism = append(mism, "unexpected-error")
					benign = false
				} else {
					if got.eof && !eofOK {
						mism = append(mism, "unexpected-EOF")
						benign = false
					}
					if !got.eof && eofMust {
						mism = append(mism, "missing-EOF")
						if o.K != "h.readat" || got.n != want.n {
							benign = false
						}
					}
					if o.K != "h.stat" && o.K != "h.sync" && o.K != "h.truncate" && got.n != want.n {
						d := fmt.Sprintf("n=%d-want=%d", got.n, want.n)
						if o.K == "h.seek" {
							switch {
							case got.n == want.n-prevPos && prevPos != 0:
								d = "got=target-prev"
							case got.n == int64(len(ref.data))-int64(o.N) && o.H == 2 && o.N != 0:
								d = "got=size-minus-offset"
							default:
								d = "got=other"
							}
						} else if got.n < 0 {
							d = "negative-count"
						} else if got.n < want.n {
							d = "short"
						} else {
							d = "long"
						}
						mism = append(mism, d)
						benign = false
					}
					if (o.K == "h.read" || o.K == "h.readat") && !bytes.Equal(got.data, want.data) {
						mism = append(mism, "bytes")
						benign = false
					}
					if o.K == "h.stat" && got.size != want.size {
						mism = append(mism, "size")
						benign = false
					}
				}
			}
			if len(mism) > 0 {
				if mode == "write" {
					argc = "" // the write-mode defects of the pinned tree are legion; keep their classes coarse
				}
				if o.K == "h.seek" {
					argc = fmt.Sprintf("whence=%d", o.H)
				}
				viol(fmt.Sprintf("C14|ret|%s|mode=%s|%s|%s|%s", o.K, wcOf(mode), flagS, argc, strings.Join(mism, ",")),
					fmt.Sprintf("%s\nlast call: got n=%d err=%v data=%q size=%d; reference n=%d err=%v eofOK=%v data=%q size=%d", hhist(job), got.n, raw, got.data, got.size, want.n, want.err, eofOK, want.data, want.size))
				if !benign {
					res.Diverged = true
				}
			}
			// the cursor the implementation reports must be the reference's (this also keeps state merging honest: a
			// hidden cursor that differs from the reference becomes visible here instead of in some later call)
			if !res.Diverged {
				cur, err := f.Seek(0, io.SeekCurrent)
				vsync.Quiesce()
				if err != nil {
					viol(fmt.Sprintf("C14|cursor-probe-error|after=%s|mode=%s|%s", o.K, wcOf(mode), flagS), fmt.Sprintf("%s\nSeek(0, SeekCurrent): %v", hhist(job), err))
					res.Diverged = true
				} else if cur != ref.pos {
					viol(fmt.Sprintf("C14|cursor|after=%s|mode=%s|%s|%s", o.K, wcOf(mode), flagS, argc), fmt.Sprintf("%s\nthe cursor is at %d (Seek(0, SeekCurrent)), the reference's at %d", hhist(job), cur, ref.pos))
					res.Diverged = true
				}
			}
			// handle-level Stat after every call
			if !res.Diverged {
				fi, err := f.Stat()
				if err != nil {
					viol("C14|handle-stat-error|"+NormErr(err), hhist(job)+"\nStat: "+err.Error())
				} else if fi.Size() != int64(len(ref.data)) {
					viol(fmt.Sprintf("C14|handle-stat-size|after=%s|mode=%s|%s", o.K, wcOf(mode), flagS), fmt.Sprintf("%s\nhandle Stat().Size() = %d, reference length %d", hhist(job), fi.Size(), len(ref.data)))
					res.Diverged = true
				}
			}
		}
		mode := "read"
		if st.OpenCaches > 0 {
			mode = "write"
		}
		ph.Name = "close"
		var cerr error
		_, pan := Guard(func() error { cerr = f.Close(); return nil })
		vsync.Quiesce()
		if pan != "" {
			viol("C14|panic|close|"+flagS, hhist(job)+"\npanic: "+pan)
			res.Diverged = true
		} else if cerr != nil {
			viol("C14|close-error|"+NormErr(cerr), hhist(job)+"\nClose: "+cerr.Error())
			res.Diverged = true
		}
		// after close: fresh open reads the reference's final bytes, Stat reports their length
		if !res.Diverged {
			ph.Name = "reopen"
			lastK := "open"
			if n > 0 {
				lastK = job.Hist[n-1].K
			}
			b, err := rig.ReadFile(st.FS, path)
			vsync.Quiesce()
			if err != nil {
				viol(fmt.Sprintf("C14|final-read-error|%s|%s", flagS, NormErr(err)), hhist(job)+"\nreading the file after Close failed: "+err.Error())
				res.Diverged = true
			} else if !bytes.Equal(b, ref.data) {
				d := "content"
				if len(b) != len(ref.data) {
					d = "length"
				}
				viol(fmt.Sprintf("C14|final-content|last=%s|mode=%s|%s|%s", lastK, wcOf(mode), flagS, d), fmt.Sprintf("%s\nafter Close the file reads %s, the reference holds %s", hhist(job), rig.DataKey(b), rig.DataKey(ref.data)))
				res.Diverged = true
			}
			if fi, err := st.FS.Stat(path); err == nil && fi.Size() != int64(len(ref.data)) {
				viol(fmt.Sprintf("C14|final-stat-size|last=%s|mode=%s|%s", lastK, wcOf(mode), flagS), fmt.Sprintf("%s\nafter Close Stat().Size() = %d, reference length %d", hhist(job), fi.Size(), len(ref.data)))
				res.Diverged = true
			}
		}
		d := ref.data
		if len(d) > 16 {
			d = d[:16]
		}
		res.Key = hashKey(string(ref.data), fmt.Sprint(ref.pos), mode)
	})
	res.Info = info
	if info.Hang != nil {
		res.Diverged = true
		viol(fmt.Sprintf("C14|hang|phase=%s|%s", phaseKind(info.Hang.Phase), info.Hang.Key()), fmt.Sprintf("%s\ndeadlock in phase %q; waiters: %+v", hhist(job), info.Hang.Phase, info.Hang.Waiters))
	}
	for _, c := range info.Crashes {
		res.Diverged = true
		viol("C14|bg-panic|"+NormErr(fmt.Errorf("%s", c)), hhist(job)+"\na background goroutine panicked (the process would have crashed): "+c)
	}
	if info.ClientPanic != "" && res.Harness == "" {
		res.Harness = "client thread panicked outside a guarded call: " + info.ClientPanic
	}
	return res
}
