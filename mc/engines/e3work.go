package engines

import (
	"fmt"
	"os"
	"strings"

	"github.com/pojntfx/stfs/pkg/zzverif/vsync"
	"stfsmc/ops"
	"stfsmc/rig"
)

// E3Job: replay Hist[:n-1], then run Hist[n-1] with the fault armed (nil = fault-free dry run that counts the
// seam events of that call), then the probe.
type E3Job struct {
	Cfg   rig.Config `json:"cfg"`
	Hist  []ops.Op   `json:"hist"`
	Fault *rig.Fault `json:"fault,omitempty"`
}

type E3Res struct {
	Counts  map[string]int `json:"counts,omitempty"`
	Fired   bool           `json:"fired"`
	Outcome string         `json:"outcome"`
	Viol    []Violation    `json:"viol,omitempty"`
	Info    ExecInfo       `json:"info"`
	Harness string         `json:"harness,omitempty"`
}

// opKindShape: a model-free shape of the call (kind + whether the path existed as file/dir before).
func rawShape(st *rig.Stack, o ops.Op) string {
	k := func(p string) string {
		if p == "" {
			return ""
		}
		fi, err := st.FS.Stat(p)
		if err != nil {
			return "missing"
		}
		if fi.IsDir() {
			return "dir"
		}
		return "file"
	}
	s := o.K
	if strings.HasPrefix(o.K, "h") && o.K != "hopen" {
		if h := st.Handles[o.H]; h != nil {
			return fmt.Sprintf("%s(%s,reads=%v,writes=%v)", o.K, ops.FlagString(h.Flags), h.Reads > 0, h.Writes > 0)
		}
		return o.K + "(nohandle)"
	}
	s += "(" + k(o.P)
	if o.Q != "" {
		s += "->" + k(o.Q)
	}
	if o.K == "hopen" {
		s += "," + ops.FlagString(o.N)
	}
	return s + ")"
}

func handlesShape(st *rig.Stack) string {
	parts := []string{}
	for slot := 0; slot < 4; slot++ {
		if h := st.Handles[slot]; h != nil {
			parts = append(parts, fmt.Sprintf("open(%s,reads=%v,writes=%v)", ops.FlagString(h.Flags), h.Reads > 0, h.Writes > 0))
		}
	}
	if len(parts) == 0 {
		return "nohandles"
	}
	return strings.Join(parts, "+")
}

func RunE3(env *Env, job *E3Job) *E3Res {
	res := &E3Res{}
	ph := &Phase{Name: "setup"}
	viol := func(class, detail string) {
		res.Viol = append(res.Viol, Violation{Prop: "C10", Class: class, Detail: detail})
	}
	seam := "none"
	if job.Fault != nil {
		seam = job.Fault.Seam
		if job.Fault.Mode != "" && job.Fault.Mode != "err" {
			seam += ":" + job.Fault.Mode
		}
	}
	shape, hshape := "?", "?"
	ownStream := false // the faulted call is a call on a handle that has read or seeked before
	hist := ops.HistString(job.Hist)
	if job.Fault != nil {
		hist += fmt.Sprintf("   [fault: event %d at seam %s of the last call fails]", job.Fault.K, seam)
	}
	info := RunManaged(ph, func() {
		st, err := rig.NewStack(env.TempDir(), job.Cfg, env.Keys)
		if err != nil {
			res.Harness = "NewStack: " + err.Error()
			return
		}
		defer st.Close()
		n := len(job.Hist)
		o := job.Hist[n-1]
		if o.K != "init-first" {
			if err := st.Init(); err != nil {
				res.Harness = "Initialize: " + err.Error()
				return
			}
		}
		for i := 0; i < n-1; i++ {
			o := job.Hist[i]
			ph.Name = fmt.Sprintf("prefix[%d] %s", i, o)
			_, _ = Guard(func() error { return ops.ExecImpl(st, o) })
			vsync.Quiesce()
		}
		old := st
		isInit := false
		switch o.K {
		case "init-first", "init-again":
			// Initialize itself is the call: on the empty drive, or once more on the running instance
			isInit = true
		case "open-existing", "open-noindex":
			// Initialize of a fresh instance over the tape written so far, with the index as it is / with an empty index
			// (the latter replays the tape)
			isInit = true
			var ns *rig.Stack
			var err error
			if o.K == "open-existing" {
				ns, err = Reopen(env, st.Cfg, st)
			} else {
				dir := env.TempDir()
				if err = CopyFile(st.Drive, dir+"/drive.tar"); err == nil {
					cfg := st.Cfg
					cfg.Overwrite = false
					ns, err = rig.NewStack(dir, cfg, env.Keys)
				}
			}
			if err != nil {
				res.Harness = o.K + ": " + err.Error()
				return
			}
			defer ns.Close()
			st = ns
		}
		if isInit {
			shape = o.K
		} else {
			shape = rawShape(st, o)
		}
		if strings.HasPrefix(o.K, "h") && o.K != "hopen" {
			if h := st.Handles[o.H]; h != nil && (h.Reads > 0 || h.Seeks > 0) {
				ownStream = true
			}
		}
		hshape = handlesShape(old)
		st.ResetCounts()
		st.Armed = job.Fault
		// a call that spins (reads the drive again and again without getting anywhere) never returns either; the scheduler
		// only sees blocked threads, so progress is bounded by a generous budget of drive-reader steps per phase
		budget := func() {
			blocks := 0
			if fi, err := os.Stat(st.Drive); err == nil {
				blocks = int(fi.Size() / 512)
			}
			st.ReadSteps, st.BudgetExceeded = 0, false
			st.ReadBudget = 64*(blocks+64) + 8192
		}
		budget()
		ph.Name = "call"
		err, pan := Guard(func() error {
			if isInit {
				return st.Init()
			}
			return ops.ExecImpl(st, o)
		})
		st.Armed = nil
		res.Fired = st.Fired
		res.Counts = st.Counts
		st.Counts = map[string]int{}
		vsync.Quiesce()
		res.Outcome = errClass(err)
		if st.BudgetExceeded {
			viol(fmt.Sprintf("C10|no-progress|phase=call|call=%s|seam=%s", shape, seam), hist+"\nthe call exceeded the drive-reader step budget: it keeps reading the drive without making progress (it would never return)")
		}
		budget()
		if pan != "" {
			viol(fmt.Sprintf("C10|panic|call=%s|seam=%s|%s", shape, seam, NormErr(fmt.Errorf("%s", strings.SplitN(pan, "\n", 2)[0]))), hist+"\nthe call panicked: "+pan)
		}
		// probe: the drive must be free for the next calls
		ph.Name = "probe"
		_, pan = Guard(func() error {
			_ = st.FS.Mkdir("/zzprobe", 0o755)
			_, _ = st.FS.Stat("/zzprobe")
			f, err := st.FS.OpenFile("/zzfile", os.O_RDWR|os.O_CREATE|os.O_TRUNC, 0o644)
			if err == nil {
				_, _ = f.Write([]byte("probe"))
				_ = f.Close()
			}
			return nil
		})
		vsync.Quiesce()
		if st.BudgetExceeded {
			viol(fmt.Sprintf("C10|no-progress|phase=probe|after=%s|seam=%s", shape, seam), hist+"\nthe calls after it (Mkdir, Stat, Create+Write+Close) exceeded the drive-reader step budget: they keep reading the drive without making progress (they would never return)")
		}
		st.ReadBudget = 0
		if pan != "" {
			viol(fmt.Sprintf("C10|panic-in-probe|after=%s|seam=%s|%s", shape, seam, NormErr(fmt.Errorf("%s", strings.SplitN(pan, "\n", 2)[0]))), hist+"\nthe probe after the call panicked: "+pan)
		}
		ph.Name = "cleanup"
		for _, h := range old.Handles {
			_, _ = Guard(func() error { return h.F.Close() })
		}
	})
	res.Info = info
	if info.Hang != nil {
		pk := phaseKind(info.Hang.Phase)
		switch pk {
		case "call", "probe":
			_ = hshape
			// who is blocked: a call on the very handle whose streaming read is under way (that handle can always finish or
			// abandon its own stream), or some other call (the drive is held by somebody else's stream: D11)
			blocked := "other-call"
			if pk == "call" && ownStream {
				blocked = "own-handle"
			}
			viol(fmt.Sprintf("C10|hang|%s|blocked=%s", info.Hang.Key(), blocked),
				fmt.Sprintf("%s\ndeadlock in phase %q; waiters: %+v", hist, info.Hang.Phase, info.Hang.Waiters))
		case "cleanup":
			viol(fmt.Sprintf("C10|hang-in-close|%s", info.Hang.Key()),
				fmt.Sprintf("%s\ndeadlock while closing the handles that were still open; waiters: %+v", hist, info.Hang.Waiters))
		default:
			// a hang in the prefix belongs to the job in which that call is the last one
			res.Outcome = "prefix-hang"
		}
	}
	for _, c := range info.Crashes {
		viol(fmt.Sprintf("C10|bg-panic|call=%s|seam=%s|%s", shape, seam, NormErr(fmt.Errorf("%s", c))), hist+"\na background goroutine panicked (the process would have crashed): "+c)
	}
	if info.ClientPanic != "" && res.Harness == "" {
		res.Harness = "client thread panicked outside a guarded call: " + info.ClientPanic
	}
	return res
}
