package engines

import (
	"crypto/sha256"
	"encoding/hex"
	"errors"
	"fmt"
	"os"
	"strings"

	"github.com/pojntfx/stfs/pkg/zzverif/vsync"
	"stfsmc/ops"
	"stfsmc/rig"
)

func fileHash(p string) string {
	b, err := os.ReadFile(p)
	if err != nil {
		return "err:" + err.Error()
	}
	h := sha256.Sum256(b)
	return fmt.Sprintf("%d:%s", len(b), hex.EncodeToString(h[:8]))
}

func isMutatorKind(k string) bool {
	switch k {
	case "mkdir", "mkdirall", "remove", "removeall", "rename", "chmod", "chown", "chtimes", "symlink", "create":
		return true
	}
	return false
}

func isHandleMutator(k string) bool {
	switch k {
	case "hwrite", "htrunc", "hwriteat", "hwritestring":
		return true
	}
	return false
}

func isReadKind(k string) bool {
	switch k {
	case "stat", "list", "read", "lstat", "readlink":
		return true
	}
	return false
}

// observe runs a read call and renders what it returned.
func observe(st *rig.Stack, o ops.Op) string {
	switch o.K {
	case "stat":
		fi, err := st.FS.Stat(o.P)
		if err != nil {
			return "err"
		}
		return fmt.Sprintf("%s %d %o %v %d", fi.Name(), fi.Size(), fi.Mode(), fi.IsDir(), fi.ModTime().UnixNano())
	case "lstat":
		fi, _, err := st.FS.LstatIfPossible(o.P)
		if err != nil {
			return "err"
		}
		return fmt.Sprintf("%s %d %o %v", fi.Name(), fi.Size(), fi.Mode(), fi.IsDir())
	case "readlink":
		s, err := st.FS.ReadlinkIfPossible(o.P)
		if err != nil {
			return "err"
		}
		return s
	case "read":
		b, err := rig.ReadFile(st.FS, o.P)
		if err != nil {
			return "err"
		}
		return rig.DataKey(b)
	case "list":
		f, err := st.FS.Open(o.P)
		if err != nil {
			return "err"
		}
		names, err := f.Readdirnames(-1)
		_ = f.Close()
		if err != nil {
			return "err"
		}
		return strings.Join(uniqSorted(names), ",")
	}
	return "?"
}

// RunC15: Setup builds tape+index on a writable stack; Hist runs on a read-only instance over copies of them.
func RunC15(env *Env, job *E1Job) *E1Res {
	res := &E1Res{}
	ph := &Phase{Name: "setup"}
	viol := func(class, detail string) {
		res.Viol = append(res.Viol, Violation{Prop: "C15", Class: class, Detail: detail})
	}
	construction := "with-write-backend"
	if job.Cfg.NoWriteOps {
		construction = "no-write-backend"
	}
	tornNote := ""
	if job.TornBytes > 0 {
		tornNote = fmt.Sprintf(", tape cut %d bytes before its end", job.TornBytes)
	}
	hist := fmt.Sprintf("[populate: %s"+tornNote+"] read-only instance (%s, index %s): %s", ops.HistString(job.Setup), construction, map[bool]string{true: "absent", false: "present"}[job.AbsentIndex], ops.HistString(job.Hist))
	info := RunManaged(ph, func() {
		wcfg := job.Cfg
		wcfg.ReadOnly, wcfg.NoWriteOps = false, false
		w, err := rig.NewStack(env.TempDir(), wcfg, env.Keys)
		if err != nil {
			res.Harness = "NewStack: " + err.Error()
			return
		}
		if err := w.Init(); err != nil {
			res.Harness = "Initialize: " + err.Error()
			return
		}
		for _, o := range job.Setup {
			_, _ = Guard(func() error { return ops.ExecImpl(w, o) })
			vsync.Quiesce()
		}
		w.Close()
		// the read-only instance
		dir := env.TempDir()
		_ = CopyFile(w.Drive, dir+"/drive.tar")
		if !job.AbsentIndex {
			_ = CopyFile(w.Index, dir+"/index.sqlite")
		}
		if job.TornBytes > 0 {
			if fi, err := os.Stat(dir + "/drive.tar"); err == nil && fi.Size() > int64(job.TornBytes) {
				_ = os.Truncate(dir+"/drive.tar", fi.Size()-int64(job.TornBytes))
			}
		}
		tapeBefore := fileHash(dir + "/drive.tar")
		ro, err := rig.NewStack(dir, job.Cfg, env.Keys)
		if err != nil {
			res.Harness = "NewStack(ro): " + err.Error()
			return
		}
		defer ro.Close()
		ph.Name = "initialize"
		var ierr error
		_, pan := Guard(func() error { ierr = ro.Init(); return nil })
		vsync.Quiesce()
		if pan != "" {
			viol("C15|panic-in-initialize|"+construction, hist+"\n"+pan)
			res.Diverged = true
			return
		}
		if h := fileHash(ro.Drive); h != tapeBefore {
			viol(fmt.Sprintf("C15|tape-changed|by=initialize|%s|index-absent=%v", construction, job.AbsentIndex), hist+fmt.Sprintf("\nInitialize on the read-only instance changed the tape: %s -> %s", tapeBefore, h))
			res.Diverged = true
			return
		}
		if ierr != nil {
			if job.TornBytes > 0 && job.AbsentIndex {
				// a read-only instance cannot repair a tape whose rebuild fails; refusing (without touching anything) is fine
				res.Key = "init-refused"
				res.Diverged = true
				return
			}
			viol(fmt.Sprintf("C15|initialize-fails|%s|index-absent=%v|%s", construction, job.AbsentIndex, NormErr(ierr)), hist+"\nInitialize failed: "+ierr.Error())
			res.Diverged = true
			return
		}
		rowsBase, _ := rig.DumpIndex(ro.Index)
		base := fmt.Sprint(rowsBase)
		n := len(job.Hist)
		for i, o := range job.Hist {
			ph.Name = fmt.Sprintf("call[%d] %s", i, o)
			last := i == n-1
			var obs string
			var cerr error
			var pan string
			if last && isReadKind(o.K) {
				_, pan = Guard(func() error { obs = observe(ro, o); return nil })
			} else {
				cerr, pan = Guard(func() error { return ops.ExecImpl(ro, o) })
			}
			vsync.Quiesce()
			if !last {
				continue
			}
			shape := rawShape(ro, o)
			if pan != "" {
				viol(fmt.Sprintf("C15|panic|%s|%s", o.K, construction), hist+"\n"+pan)
				res.Diverged = true
				break
			}
			if h := fileHash(ro.Drive); h != tapeBefore {
				viol(fmt.Sprintf("C15|tape-changed|by=%s|%s", shape, construction), hist+fmt.Sprintf("\nthe tape changed: %s -> %s", tapeBefore, h))
				res.Diverged = true
			}
			if rows, _ := rig.DumpIndex(ro.Index); fmt.Sprint(rows) != base {
				viol(fmt.Sprintf("C15|index-changed|by=%s|%s", shape, construction), hist+"\nthe index rows changed")
				res.Diverged = true
			}
			switch {
			case isMutatorKind(o.K):
				if !errors.Is(cerr, os.ErrPermission) {
					viol(fmt.Sprintf("C15|no-permission-error|%s|%s|got=%s", shape, construction, errKind(cerr)), hist+fmt.Sprintf("\nthe mutating call returned %v, not a permission error", cerr))
				}
			case isHandleMutator(o.K):
				if ro.Handles[o.H] != nil && !errors.Is(cerr, os.ErrPermission) {
					viol(fmt.Sprintf("C15|no-permission-error|%s|%s|got=%s", shape, construction, errKind(cerr)), hist+fmt.Sprintf("\nthe write on a handle of a read-only file system returned %v, not a permission error", cerr))
				}
			case o.K == "put" || (o.K == "openw" && o.C != ""):
				if cerr == nil {
					viol(fmt.Sprintf("C15|write-succeeds|%s|%s", shape, construction), hist+"\nopen+write+close reported success on a read-only file system")
				} else if o.K == "openw" && o.N&os.O_CREATE != 0 && o.N&os.O_EXCL != 0 && errors.Is(cerr, os.ErrExist) {
					// O_CREATE|O_EXCL on an existing file fails with "exists" before any write is attempted
				} else if strings.Contains(shape, "(file") && !errors.Is(cerr, os.ErrPermission) {
					viol(fmt.Sprintf("C15|no-permission-error|%s|%s|got=%s", shape, construction, errKind(cerr)), hist+fmt.Sprintf("\nwriting to an existing file returned %v, not a permission error", cerr))
				}
			case (o.K == "openw" || o.K == "hopen") && o.N&os.O_CREATE != 0 && strings.Contains(shape, "(missing"):
				if cerr == nil {
					viol(fmt.Sprintf("C15|create-succeeds|%s|%s", shape, construction), hist+"\nOpenFile(O_CREATE) of a missing path succeeded on a read-only file system")
				}
			case isReadKind(o.K):
				// a writable twin over copies of the same two files returns the same
				tdir := env.TempDir()
				_ = CopyFile(ro.Drive, tdir+"/drive.tar")
				_ = CopyFile(ro.Index, tdir+"/index.sqlite")
				tw, err := rig.NewStack(tdir, wcfg, env.Keys)
				if err == nil {
					if err := tw.Init(); err == nil {
						var tobs string
						_, _ = Guard(func() error { tobs = observe(tw, o); return nil })
						vsync.Quiesce()
						if tobs != obs {
							viol(fmt.Sprintf("C15|read-differs-from-writable-twin|%s|%s", shape, construction), hist+fmt.Sprintf("\nread-only instance: %q; writable twin over the same data: %q", obs, tobs))
						}
					}
					tw.Close()
				}
			}
		}
		hk := ""
		for slot := 0; slot < 4; slot++ {
			if h := ro.Handles[slot]; h != nil {
				hk += fmt.Sprintf("h%d:%s:%d:r%v:w%v:s%v;", slot, h.Path, h.Flags, h.Reads > 0, h.Writes > 0, h.Seeks > 0)
			}
		}
		res.Key = hashKey(base, tapeBefore, hk)
		ph.Name = "cleanup"
		for _, h := range ro.Handles {
			_, _ = Guard(func() error { return h.F.Close() })
		}
		vsync.Quiesce()
		if h := fileHash(ro.Drive); h != tapeBefore && !res.Diverged {
			viol("C15|tape-changed|by=close|"+construction, hist+"\nclosing the handles changed the tape")
		}
	})
	res.Info = info
	if info.Hang != nil {
		res.Diverged = true
		viol(fmt.Sprintf("C15|hang|phase=%s|%s|%s", phaseKind(info.Hang.Phase), construction, info.Hang.Key()), hist+fmt.Sprintf("\ndeadlock in phase %q; waiters %+v", info.Hang.Phase, info.Hang.Waiters))
	}
	for _, c := range info.Crashes {
		res.Diverged = true
		viol("C15|bg-panic|"+construction+"|"+NormErr(fmt.Errorf("%s", c)), hist+"\nbackground goroutine panicked: "+c)
	}
	if info.ClientPanic != "" && res.Harness == "" {
		res.Harness = "client thread panicked outside a guarded call: " + info.ClientPanic
	}
	return res
}

func errKind(err error) string {
	switch {
	case err == nil:
		return "nil"
	case errors.Is(err, os.ErrNotExist):
		return "not-exist"
	case errors.Is(err, os.ErrExist):
		return "exist"
	case errors.Is(err, os.ErrInvalid):
		return "invalid"
	}
	return "other:" + NormErr(err)
}
