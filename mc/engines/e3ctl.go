package engines

import (
	"encoding/json"
	"fmt"
	"os"
	"sort"
	"time"

	"stfsmc/ops"
	"stfsmc/pool"
	"stfsmc/rig"
)

type E3Spec struct {
	Name     string
	Cfg      rig.Config
	Alphabet []ops.Op
	Finals   []ops.Op // calls that are only explored as the last (faulted) call of a history: the Initialize variants
	Depth    int      // length of the histories whose last call is faulted
}

type E3Stats struct {
	Prefixes     int
	DryRuns      int
	Faulted      int
	Fired        int
	Distinct     map[string]bool // (call kind, seam) whose fault actually fired
	Exhaustive   bool
	Harness      []string
	Inconclusive int
}

// ExploreE3: for every representative history h (|h| < Depth) and every call c: fault-free run of h·c, then one run per
// (seam, k) with k up to the number of events the fault-free run of c reached at that seam.
func ExploreE3(p *pool.Pool, spec E3Spec, rep *Report, deadline time.Time) E3Stats {
	st := E3Stats{Distinct: map[string]bool{}, Exhaustive: true}
	// 1. representative prefixes by state-merged BFS (no oracles)
	silent := &Report{Prop: "none", Findings: map[string]*Finding{}, Coverage: map[string]interface{}{}}
	e1 := ExploreE1(p, E1Spec{Name: spec.Name + "/prefixes", Cfg: spec.Cfg, Alphabet: spec.Alphabet, Depth: spec.Depth - 1, Level: "raw", NoWalk: true}, silent, deadline)
	st.Harness = append(st.Harness, e1.Harness...)
	if !e1.Exhaustive {
		st.Exhaustive = false
	}
	st.Prefixes = len(e1.Reps)
	// 2. dry runs
	dry := []interface{}{}
	for _, h := range e1.Reps {
		for _, op := range spec.Alphabet {
			dry = append(dry, &E3Job{Cfg: spec.Cfg, Hist: append(append([]ops.Op{}, h...), op)})
		}
		for _, op := range spec.Finals {
			if op.K == "init-first" && len(h) > 0 {
				continue
			}
			dry = append(dry, &E3Job{Cfg: spec.Cfg, Hist: append(append([]ops.Op{}, h...), op)})
		}
	}
	faults := []interface{}{}
	stop := func() bool { return !deadline.IsZero() && time.Now().After(deadline) }
	p.Stop = stop
	skipped := 0
	handle := func(jobs []interface{}) func(i int, resp *pool.Response) {
		return func(i int, resp *pool.Response) {
			job := jobs[i].(*E3Job)
			if resp.Err == "skipped" {
				skipped++
				return
			}
			if resp.Err != "" {
				st.Inconclusive++
				rep.Inconclusive++
				fmt.Fprintf(os.Stderr, "[%s] inconclusive: %s: %s\n", spec.Name, ops.HistString(job.Hist), resp.Err)
				return
			}
			var r E3Res
			if err := json.Unmarshal(resp.Result, &r); err != nil {
				st.Harness = append(st.Harness, err.Error())
				return
			}
			if r.Harness != "" {
				st.Harness = append(st.Harness, ops.HistString(job.Hist)+": "+r.Harness)
				return
			}
			rep.Add("e3", job, r.Viol)
			if job.Fault == nil {
				st.DryRuns++
				if r.Outcome == "prefix-hang" {
					return
				}
				seams := []string{}
				for s := range r.Counts {
					seams = append(seams, s)
				}
				sort.Strings(seams)
				for _, s := range seams {
					for k := 1; k <= r.Counts[s]; k++ {
						faults = append(faults, &E3Job{Cfg: job.Cfg, Hist: job.Hist, Fault: &rig.Fault{Seam: s, K: k}})
						if s == "drive.Write" {
							faults = append(faults, &E3Job{Cfg: job.Cfg, Hist: job.Hist, Fault: &rig.Fault{Seam: s, K: k, Mode: "short"}})
						}
					}
				}
			} else {
				st.Faulted++
				if r.Fired {
					st.Fired++
					st.Distinct[job.Hist[len(job.Hist)-1].K+"|"+job.Fault.Seam+"|"+job.Fault.Mode] = true
				}
			}
		}
	}
	p.Map("e3", dry, handle(dry))
	if len(dry) > 0 {
		rep.AddSample(map[string]interface{}{"exploration": spec.Name, "history": ops.HistString(dry[len(dry)/2].(*E3Job).Hist), "fault": "none (dry run counting seam events)"})
	}
	p.Map("e3", faults, handle(faults))
	p.Stop = nil
	if len(faults) > 0 {
		j := faults[len(faults)/2].(*E3Job)
		rep.AddSample(map[string]interface{}{"exploration": spec.Name, "history": ops.HistString(j.Hist), "fault": j.Fault})
	}
	if skipped > 0 {
		st.Exhaustive = false
		rep.Notes = append(rep.Notes, fmt.Sprintf("%s: budget reached, %d runs not executed", spec.Name, skipped))
	}
	return st
}
