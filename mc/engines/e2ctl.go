package engines

import (
	"encoding/json"
	"fmt"
	"os"
	"time"

	"stfsmc/ops"
	"stfsmc/pool"
	"stfsmc/rig"
)

type E2Spec struct {
	Name    string
	Prop    string
	Cfg     rig.Config
	Level   string
	Hists   [][]ops.Op
	Policy  string // quick | all
	NShards int
	Indexes []string // C16 index variants
}

type E2Stats struct {
	Tapes      int
	Shapes     int
	Evals      int
	Distinct   map[string]bool
	Exhaustive bool
	Harness    []string
}

// LongHistories: hand-built histories that contain every record kind, payloads that span records, a payload shaped
// like a tar header, reused names and directory moves.
func LongHistories() [][]ops.Op {
	return [][]ops.Op{
		{{K: "mkdir", P: "/a"}, {K: "put", P: "/a/f", C: "T700"}, {K: "put", P: "/g", C: "H:/evil"}, {K: "chmod", P: "/g", N: 0o600}, {K: "rename", P: "/a/f", Q: "/h"}, {K: "remove", P: "/g"}},
		{{K: "put", P: "/f", C: "x"}, {K: "put", P: "/f", C: "T1025:2"}, {K: "mkdir", P: "/d"}, {K: "rename", P: "/f", Q: "/d/f"}, {K: "rename", P: "/d", Q: "/e"}, {K: "removeall", P: "/e"}},
		{{K: "put", P: "/e", C: ""}, {K: "chtimes", P: "/e"}, {K: "chown", P: "/e"}, {K: "put", P: "/e", C: "T512:4"}, {K: "remove", P: "/e"}, {K: "put", P: "/e", C: "again"}},
		{{K: "mkdirall", P: "/a/b/c"}, {K: "put", P: "/a/b/c/f", C: "deep"}, {K: "rename", P: "/a/b", Q: "/a/z"}, {K: "put", P: "/a/z/c/f", C: "H:/a/evil"}, {K: "removeall", P: "/a/z/c"}},
		// a write handle that outlives its file (the update at Close is refused), followed by further calls
		{{K: "put", P: "/keep", C: "T700"}, {K: "mkdir", P: "/d"}, {K: "hopen", P: "/gone", N: os.O_RDWR | os.O_CREATE, H: 0}, {K: "hwrite", H: 0, C: "soon gone"}, {K: "remove", P: "/gone"}, {K: "hclose", H: 0},
			{K: "remove", P: "/keep"}, {K: "mkdir", P: "/after"}, {K: "rename", P: "/d", Q: "/e"}},
		// the tape ends with a metadata-only update of an entry that is neither the newest nor the last written one
		{{K: "mkdir", P: "/docs"}, {K: "put", P: "/docs/one", C: "T600"}, {K: "put", P: "/two", C: "xy"}, {K: "chmod", P: "/docs", N: 0o700}},
		// a directory whose first child is a file of more than two blocks, followed by further entries in the same move / delete archive
		{{K: "mkdir", P: "/d"}, {K: "put", P: "/d/a", C: "T1200"}, {K: "put", P: "/d/b", C: "x"}, {K: "mkdir", P: "/d/c"}, {K: "rename", P: "/d", Q: "/e"}, {K: "removeall", P: "/e/c"}},
	}
}

func ArchiveHistories() [][]ops.Op {
	return [][]ops.Op{
		{{K: "archive", P: "d,f,n"}, {K: "archive", P: "e,h,k"}, {K: "update", P: "/e", C: "T513:1", N: 1}, {K: "move", P: "/d", Q: "/m"}, {K: "delete", P: "/h"}},
		{{K: "archive", P: "g"}, {K: "update", P: "/g", N: 0}, {K: "update", P: "/g", C: "T5:2", N: 1}, {K: "move", P: "/g", Q: "/e"}, {K: "archive", P: "d,f"}, {K: "delete", P: "/d"}},
	}
}

func ExploreE2(p *pool.Pool, spec E2Spec, rep *Report, deadline time.Time) E2Stats {
	st := E2Stats{Distinct: map[string]bool{}, Exhaustive: true}
	// 1. tape shapes
	jobs := []interface{}{}
	for _, h := range spec.Hists {
		jobs = append(jobs, &E2Job{Prop: "tape", Cfg: spec.Cfg, Level: spec.Level, Hist: h})
	}
	shapes := map[string]int{}
	p.Map("e2", jobs, func(i int, resp *pool.Response) {
		if resp.Err != "" {
			st.Harness = append(st.Harness, resp.Err)
			return
		}
		var r E2Res
		_ = json.Unmarshal(resp.Result, &r)
		if r.Harness != "" {
			if r.Info.Hang != nil {
				return
			}
			st.Harness = append(st.Harness, ops.HistString(spec.Hists[i])+": "+r.Harness)
			return
		}
		if r.Info.Hang != nil {
			return // the history itself hangs (another property's subject): no tape to cut
		}
		st.Tapes++
		if j, ok := shapes[r.Shape]; !ok || i < j {
			shapes[r.Shape] = i
		}
	})
	st.Shapes = len(shapes)
	if len(st.Harness) > 0 {
		return st
	}
	// 2. cuts
	idx := spec.Indexes
	if len(idx) == 0 {
		idx = []string{""}
	}
	jobs = jobs[:0]
	order := []int{}
	for _, i := range shapes {
		order = append(order, i)
	}
	sortInts(order)
	for _, i := range order {
		for _, ix := range idx {
			for sh := 0; sh < spec.NShards; sh++ {
				jobs = append(jobs, &E2Job{Prop: spec.Prop, Cfg: spec.Cfg, Level: spec.Level, Hist: spec.Hists[i], Policy: spec.Policy, Shard: sh, NShards: spec.NShards, Index: ix})
			}
		}
	}
	skipped := 0
	p.Stop = func() bool { return !deadline.IsZero() && time.Now().After(deadline) }
	p.Map("e2", jobs, func(i int, resp *pool.Response) {
		job := jobs[i].(*E2Job)
		if resp.Err == "skipped" {
			skipped++
			return
		}
		if resp.Err != "" {
			rep.Inconclusive++
			fmt.Fprintf(os.Stderr, "[%s] inconclusive: %s: %s\n", spec.Name, ops.HistString(job.Hist), resp.Err)
			return
		}
		var r E2Res
		_ = json.Unmarshal(resp.Result, &r)
		if r.Harness != "" {
			st.Harness = append(st.Harness, ops.HistString(job.Hist)+": "+r.Harness)
			return
		}
		st.Evals += r.Evals
		for _, d := range r.Distinct {
			st.Distinct[d] = true
		}
		for _, v := range r.Viol {
			mj := *job
			if v.Cut != nil {
				mj.Policy, mj.Shard, mj.NShards, mj.Cuts = "", 0, 0, []int64{*v.Cut}
			}
			rep.Add("e2", &mj, []Violation{v})
		}
	})
	p.Stop = nil
	if skipped > 0 {
		st.Exhaustive = false
		rep.Notes = append(rep.Notes, fmt.Sprintf("%s: budget reached, %d of %d cut batches not executed", spec.Name, skipped, len(jobs)))
	}
	if len(jobs) > 0 {
		j := jobs[len(jobs)/2].(*E2Job)
		rep.AddSample(map[string]interface{}{"exploration": spec.Name, "history": ops.HistString(j.Hist), "cut_policy": j.Policy, "shard": fmt.Sprintf("%d/%d", j.Shard, j.NShards), "index": j.Index})
	}
	return st
}

func sortInts(a []int) {
	for i := 1; i < len(a); i++ {
		for j := i; j > 0 && a[j] < a[j-1]; j-- {
			a[j], a[j-1] = a[j-1], a[j]
		}
	}
}
