package engines

import (
	"crypto/sha256"
	"encoding/hex"
	"encoding/json"
	"fmt"
	"os"
	"path/filepath"
	"sort"
	"strings"
	"time"

	"stfsmc/kf"
	"stfsmc/pool"
)

// Finding groups all violations of one class.
type Finding struct {
	Prop    string          `json:"property"`
	Class   string          `json:"class"`
	Count   int             `json:"count"`
	Kind    string          `json:"job_kind"`
	Job     json.RawMessage `json:"job"`
	Detail  string          `json:"detail"`
	jobSize int
}

// Report collects violations for one check run, decides the exit code and writes evidence and replay artefacts.
type Report struct {
	Prop     string
	Tier     string
	Seed     int64
	Level    string
	VerifDir string
	KF       *kf.File
	Pool     *pool.Pool
	Start    time.Time

	Findings     map[string]*Finding
	Notes        []string
	Inconclusive int

	Coverage    map[string]interface{}
	Assumptions []string
	Samples     []interface{}
}

func NewReport(prop, tier, level, verifDir string, seed int64, p *pool.Pool) (*Report, error) {
	k, err := kf.Load(filepath.Join(verifDir, "known_findings.txt"))
	if err != nil {
		return nil, err
	}
	return &Report{Prop: prop, Tier: tier, Seed: seed, Level: level, VerifDir: verifDir, KF: k, Pool: p, Start: time.Now(),
		Findings: map[string]*Finding{}, Coverage: map[string]interface{}{}}, nil
}

// Add records violations of this report's property produced by one job.
func (r *Report) Add(kind string, job interface{}, viol []Violation) {
	for _, v := range viol {
		if v.Prop != r.Prop {
			continue
		}
		jb, _ := json.Marshal(job)
		f, ok := r.Findings[v.Class]
		if !ok {
			f = &Finding{Prop: v.Prop, Class: v.Class, Kind: kind, Job: jb, Detail: v.Detail, jobSize: len(jb)}
			r.Findings[v.Class] = f
		} else if len(jb) < f.jobSize {
			f.Job, f.Detail, f.jobSize = jb, v.Detail, len(jb)
		}
		f.Count++
	}
}

func (r *Report) AddSample(s interface{}) {
	if len(r.Samples) < 12 {
		r.Samples = append(r.Samples, s)
	}
}

func classHash(c string) string {
	h := sha256.Sum256([]byte(c))
	return hex.EncodeToString(h[:6])
}

// confirm re-executes the witness job twice on fresh workers and requires the same class both times.
func (r *Report) confirm(f *Finding) (bool, string) {
	if r.Pool == nil || f.Kind == "" {
		return true, ""
	}
	var raw interface{} = f.Job
	got := 0
	notes := []string{}
	r.Pool.Map(f.Kind, []interface{}{raw, raw}, func(i int, resp *pool.Response) {
		if resp.Err != "" {
			notes = append(notes, resp.Err)
			return
		}
		var g struct {
			Viol []Violation `json:"viol"`
		}
		_ = json.Unmarshal(resp.Result, &g)
		for _, v := range g.Viol {
			if v.Prop == f.Prop && v.Class == f.Class {
				got++
				return
			}
		}
		cl := []string{}
		for _, v := range g.Viol {
			cl = append(cl, v.Class)
		}
		notes = append(notes, "classes on re-run: "+strings.Join(cl, " ; "))
	})
	return got == 2, strings.Join(notes, " | ")
}

// Finish prints KNOWN-FINDING / VIOLATION lines, writes artefacts + evidence and returns the exit code.
func (r *Report) Finish() int {
	classes := []string{}
	for c := range r.Findings {
		classes = append(classes, c)
	}
	sort.Strings(classes)
	exit := 0
	nviol := 0
	unconfirmed := []string{}
	knownSeen := []string{}
	for _, c := range classes {
		f := r.Findings[c]
		if k := r.KF.Match(f.Prop, f.Class); k != nil {
			k.Seen += f.Count
			first := strings.SplitN(f.Detail, "\n", 2)[0]
			fmt.Printf("KNOWN-FINDING: property=%s %s (%d instances, e.g. %s)\n", f.Prop, f.Class, f.Count, first)
			knownSeen = append(knownSeen, f.Class)
			continue
		}
		ok, note := r.confirm(f)
		if !ok {
			unconfirmed = append(unconfirmed, f.Class+" :: "+note)
			fmt.Fprintf(os.Stderr, "unconfirmed (not reported): %s :: %s\n", f.Class, note)
			continue
		}
		if hp := os.Getenv("VERIF_HARVEST"); hp != "" {
			if fh, err := os.OpenFile(hp, os.O_APPEND|os.O_CREATE|os.O_WRONLY, 0o644); err == nil {
				lines := strings.Split(f.Detail, "\n")
				w := lines[0]
				what := ""
				if len(lines) > 1 {
					what = strings.TrimSpace(lines[len(lines)-1])
				}
				fmt.Fprintf(fh, "known: property=%s class=%s\n       witness=%s\n       what=%s\n", f.Prop, f.Class, w, what)
				fh.Close()
			}
		}
		dir := filepath.Join(r.VerifDir, "replays", r.Prop)
		if d := os.Getenv("VERIF_OUT_DIR"); d != "" {
			dir = filepath.Join(d, "replays", r.Prop)
		}
		_ = os.MkdirAll(dir, 0o755)
		path := filepath.Join(dir, classHash(f.Class)+".json")
		b, _ := json.MarshalIndent(f, "", " ")
		_ = os.WriteFile(path, b, 0o644)
		fmt.Printf("VIOLATION property=%s replay=%s\n", r.Prop, path)
		fmt.Printf("  class: %s\n  instances: %d\n  %s\n", f.Class, f.Count, strings.ReplaceAll(f.Detail, "\n", "\n  "))
		exit = 1
		nviol++
	}
	notObserved := []string{}
	for _, k := range r.KF.Known {
		if k.Prop == r.Prop && k.Seen == 0 {
			notObserved = append(notObserved, k.Class)
		}
	}
	cov := r.Coverage
	if _, ok := cov["samples"]; !ok {
		if len(r.Samples) == 0 {
			r.Samples = append(r.Samples, "none")
		}
		cov["samples"] = r.Samples
	}
	cov["known_findings_observed"] = knownSeen
	cov["known_not_observed"] = notObserved
	cov["unconfirmed"] = unconfirmed
	cov["inconclusive_jobs"] = r.Inconclusive
	if len(r.Notes) > 0 {
		cov["notes"] = r.Notes
	}
	ev := map[string]interface{}{
		"property_id": r.Prop,
		"tier":        r.Tier,
		"seed":        r.Seed,
		"level":       r.Level,
		"coverage":    cov,
		"assumptions": r.Assumptions,
		"wall_s":      time.Since(r.Start).Seconds(),
		"violations":  nviol,
	}
	evDir := filepath.Join(r.VerifDir, "evidence")
	if d := os.Getenv("VERIF_OUT_DIR"); d != "" {
		evDir = filepath.Join(d, "evidence")
	}
	_ = os.MkdirAll(evDir, 0o755)
	b, _ := json.MarshalIndent(ev, "", " ")
	if err := os.WriteFile(filepath.Join(evDir, r.Prop+".json"), b, 0o644); err != nil {
		fmt.Fprintln(os.Stderr, "cannot write evidence:", err)
		return 2
	}
	return exit
}
