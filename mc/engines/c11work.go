package engines

import (
	"archive/tar"
	"fmt"
	"os"
	"path"
	"runtime"
	"sort"
	"strings"
	"time"

	"github.com/pojntfx/stfs/pkg/zzverif/vsync"
	"stfsmc/ops"
	"stfsmc/rig"
)

// Scenario: a sequential setup, then client threads that each issue their calls in order on ONE file system.
type Scenario struct {
	Name    string
	Cfg     rig.Config
	Setup   []ops.Op
	Threads [][]ops.Op
}

func Scenarios() []Scenario {
	rw := os.O_RDWR | os.O_CREATE | os.O_TRUNC
	c := rig.Config{RecordSize: 20}
	return []Scenario{
		{Name: "S1-create-vs-mkdir-vs-list", Cfg: c, Setup: []ops.Op{{K: "mkdir", P: "/a"}},
			Threads: [][]ops.Op{{{K: "hopen", P: "/a/f", N: rw, H: 0}, {K: "hwrite", H: 0, C: "x"}, {K: "hclose", H: 0}}, {{K: "mkdir", P: "/a/d"}}, {{K: "list", P: "/a"}}}},
		{Name: "S2-rename-dir-vs-create-inside", Cfg: c, Setup: []ops.Op{{K: "mkdir", P: "/a"}},
			Threads: [][]ops.Op{{{K: "rename", P: "/a", Q: "/b"}}, {{K: "hopen", P: "/a/f", N: rw, H: 1}, {K: "hwrite", H: 1, C: "x"}, {K: "hclose", H: 1}}}},
		{Name: "S3-two-writers-one-reader", Cfg: c, Setup: []ops.Op{{K: "put", P: "/f", C: "0"}},
			Threads: [][]ops.Op{{{K: "put1", P: "/f", C: "x", H: 0}}, {{K: "put1", P: "/f", C: "yy", H: 1}}, {{K: "hopen", P: "/f", N: os.O_RDONLY, H: 2}, {K: "hread", H: 2, N: 64}, {K: "hclose", H: 2}}}},
		{Name: "S4-remove-vs-chmod-vs-stat", Cfg: c, Setup: []ops.Op{{K: "mkdir", P: "/a"}, {K: "put", P: "/a/f", C: "x"}},
			Threads: [][]ops.Op{{{K: "remove", P: "/a/f"}}, {{K: "chmod", P: "/a/f", N: 0o600}}, {{K: "stat", P: "/a/f"}}}},
		{Name: "S5-removeall-vs-mkdirall", Cfg: c, Setup: []ops.Op{{K: "mkdir", P: "/a"}, {K: "put", P: "/a/f", C: "x"}},
			Threads: [][]ops.Op{{{K: "removeall", P: "/a"}}, {{K: "mkdirall", P: "/a/c"}}}},
		{Name: "S6-partial-reader-vs-mkdir", Cfg: rig.Config{RecordSize: 1}, Setup: []ops.Op{{K: "put", P: "/f", C: "T3000"}},
			Threads: [][]ops.Op{{{K: "hopen", P: "/f", N: os.O_RDONLY, H: 0}, {K: "hread", H: 0, N: 1000}, {K: "hreadall", H: 0}, {K: "hclose", H: 0}}, {{K: "mkdir", P: "/a"}}}},
		{Name: "S8-create-vs-removeall-parent", Cfg: c, Setup: []ops.Op{{K: "mkdir", P: "/a"}},
			Threads: [][]ops.Op{{{K: "create", P: "/a/f"}}, {{K: "removeall", P: "/a"}}}},
		{Name: "S9-mkdir-mkdir-stat", Cfg: c, Setup: []ops.Op{{K: "mkdir", P: "/a"}},
			Threads: [][]ops.Op{{{K: "mkdir", P: "/a/d"}}, {{K: "mkdir", P: "/a/d"}}, {{K: "stat", P: "/a/d"}}}},
		{Name: "S10-rename-vs-rename", Cfg: c, Setup: []ops.Op{{K: "put", P: "/f", C: "x"}, {K: "put", P: "/g", C: "y"}},
			Threads: [][]ops.Op{{{K: "rename", P: "/f", Q: "/h"}}, {{K: "rename", P: "/g", Q: "/h"}}, {{K: "stat", P: "/h"}}}},
		{Name: "S12-two-readers-two-files", Cfg: c, Setup: []ops.Op{{K: "put", P: "/f", C: "T100"}, {K: "put", P: "/g", C: "T100:2"}},
			Threads: [][]ops.Op{{{K: "hopen", P: "/f", N: os.O_RDONLY, H: 0}, {K: "hreadall", H: 0}, {K: "hclose", H: 0}}, {{K: "hopen", P: "/g", N: os.O_RDONLY, H: 1}, {K: "hreadall", H: 1}, {K: "hclose", H: 1}}}},
		{Name: "S13-two-readers-one-file-then-write", Cfg: c, Setup: []ops.Op{{K: "put", P: "/f", C: "T100"}},
			Threads: [][]ops.Op{{{K: "hopen", P: "/f", N: os.O_RDONLY, H: 0}, {K: "hreadall", H: 0}, {K: "hclose", H: 0}, {K: "mkdir", P: "/d"}}, {{K: "hopen", P: "/f", N: os.O_RDONLY, H: 1}, {K: "hreadall", H: 1}, {K: "hclose", H: 1}}}},
		{Name: "S14-seek-on-fresh-handle-vs-mkdir", Cfg: c, Setup: []ops.Op{{K: "put", P: "/f", C: "T100"}},
			Threads: [][]ops.Op{{{K: "hopen", P: "/f", N: os.O_RDONLY, H: 0}, {K: "hseek", H: 0, N: 0}, {K: "hreadall", H: 0}, {K: "hclose", H: 0}}, {{K: "mkdir", P: "/d"}}}},
		{Name: "S11-chown-vs-chtimes-vs-write", Cfg: c, Setup: []ops.Op{{K: "put", P: "/f", C: "x"}},
			Threads: [][]ops.Op{{{K: "chown", P: "/f"}}, {{K: "chtimes", P: "/f"}}, {{K: "hopen", P: "/f", N: os.O_RDWR, H: 2}, {K: "hwrite", H: 2, C: "zz"}, {K: "hclose", H: 2}}}},
	}
}

// PairAlphabet: client programs whose pairwise interleavings are explored systematically (every unordered pair, each
// program on its own thread), over the tree {/a (dir), /a/f, /g}. Every element of a program is ONE API call, so that
// the calls themselves are the unit of linearizability (a composite like open+write+close is not atomic on any file system).
func PairAlphabet() [][]ops.Op {
	return [][]ops.Op{
		{{K: "mkdir", P: "/a/d"}},
		{{K: "create", P: "/a/n"}},
		{{K: "hopen", P: "/a/f", N: os.O_RDWR, H: 0}, {K: "hwrite", H: 0, C: "zz"}, {K: "hclose", H: 0}},
		{{K: "remove", P: "/a/f"}},
		{{K: "remove", P: "/a"}},
		{{K: "removeall", P: "/a"}},
		{{K: "rename", P: "/a", Q: "/b"}},
		{{K: "rename", P: "/a/f", Q: "/a/h"}},
		{{K: "rename", P: "/g", Q: "/a/g"}},
		{{K: "chmod", P: "/a/f", N: 0o600}},
		{{K: "mkdirall", P: "/a/d/e"}},
		{{K: "stat", P: "/a/f"}},
		{{K: "hopen", P: "/a", N: os.O_RDONLY, H: 0}, {K: "hlist", H: 0}, {K: "hclose", H: 0}},
		{{K: "hopen", P: "/a/f", N: os.O_RDONLY, H: 0}, {K: "hread", H: 0, N: 64}, {K: "hclose", H: 0}},
	}
}

func progString(p []ops.Op) string {
	parts := []string{}
	for _, o := range p {
		parts = append(parts, o.String())
	}
	return strings.Join(parts, "; ")
}

// PairScenarios: one scenario per unordered pair (including a program paired with itself).
func PairScenarios() []Scenario {
	al := PairAlphabet()
	setup := []ops.Op{{K: "mkdir", P: "/a"}, {K: "put", P: "/a/f", C: "x"}, {K: "put", P: "/g", C: "y"}}
	out := []Scenario{}
	reslot := func(p []ops.Op, slot int) []ops.Op {
		q := append([]ops.Op(nil), p...)
		for i := range q {
			if strings.HasPrefix(q[i].K, "h") {
				q[i].H = slot
			}
		}
		return q
	}
	observer := func(p []ops.Op) bool { return p[0].K == "stat" || (p[0].K == "hopen" && p[0].N == os.O_RDONLY) }
	for i := range al {
		for j := i; j < len(al); j++ {
			if observer(al[i]) && observer(al[j]) {
				continue
			}
			out = append(out, Scenario{Name: fmt.Sprintf("P%02d-%02d[%s || %s]", i, j, progString(al[i]), progString(al[j])), Cfg: rig.Config{RecordSize: 20}, Setup: setup,
				Threads: [][]ops.Op{reslot(al[i], 0), reslot(al[j], 1)}})
		}
	}
	// the same parent/child conflicts with an empty parent (Remove succeeds)
	setup2 := []ops.Op{{K: "mkdir", P: "/a"}}
	for _, parentOp := range []ops.Op{{K: "remove", P: "/a"}, {K: "rename", P: "/a", Q: "/b"}, {K: "removeall", P: "/a"}} {
		for _, childOp := range []ops.Op{{K: "mkdir", P: "/a/d"}, {K: "create", P: "/a/n"}, {K: "mkdirall", P: "/a/d/e"}} {
			out = append(out, Scenario{Name: fmt.Sprintf("Q[%s || %s]", parentOp, childOp), Cfg: rig.Config{RecordSize: 20}, Setup: setup2,
				Threads: [][]ops.Op{{parentOp}, {childOp}}})
		}
	}
	return out
}

// TripleScenarios: every unordered triple of six client programs, three threads (thorough tier).
func TripleScenarios() []Scenario {
	al := PairAlphabet()
	pick := []int{0, 2, 3, 6, 5, 11} // mkdir child, write through a handle, remove file, rename parent, removeall parent, stat
	setup := []ops.Op{{K: "mkdir", P: "/a"}, {K: "put", P: "/a/f", C: "x"}, {K: "put", P: "/g", C: "y"}}
	reslot := func(p []ops.Op, slot int) []ops.Op {
		q := append([]ops.Op(nil), p...)
		for i := range q {
			if strings.HasPrefix(q[i].K, "h") {
				q[i].H = slot
			}
		}
		return q
	}
	out := []Scenario{}
	for x := 0; x < len(pick); x++ {
		for y := x + 1; y < len(pick); y++ {
			for z := y + 1; z < len(pick); z++ {
				a, b, c := al[pick[x]], al[pick[y]], al[pick[z]]
				out = append(out, Scenario{Name: fmt.Sprintf("R%d-%d-%d[%s || %s || %s]", pick[x], pick[y], pick[z], progString(a), progString(b), progString(c)), Cfg: rig.Config{RecordSize: 20}, Setup: setup,
					Threads: [][]ops.Op{reslot(a, 0), reslot(b, 1), reslot(c, 2)}})
			}
		}
	}
	return out
}

// C13Scenarios: the scenarios in which one caller removes or renames a directory while another creates below it, and
// two callers creating the same or nested entries (judged for the well-formedness of the final namespace).
func C13Scenarios() []Scenario {
	out := []Scenario{}
	for _, s := range QuickScenarios() {
		if strings.HasPrefix(s.Name, "Q[") || strings.HasPrefix(s.Name, "S2-") || strings.HasPrefix(s.Name, "S5-") || strings.HasPrefix(s.Name, "S8-") || strings.HasPrefix(s.Name, "S9-") {
			out = append(out, s)
			continue
		}
		if strings.HasPrefix(s.Name, "P") {
			// pairs of (a call that creates below /a) x (a call that removes, renames or replaces /a or creates below it)
			var i, j int
			if _, err := fmt.Sscanf(s.Name, "P%02d-%02d[", &i, &j); err == nil {
				creator := func(k int) bool { return k == 0 || k == 1 || k == 10 || k == 8 }
				mover := func(k int) bool { return k == 4 || k == 5 || k == 6 }
				if (creator(i) && (mover(j) || creator(j))) || (mover(i) && creator(j)) {
					out = append(out, s)
				}
			}
		}
	}
	return out
}

func AllScenarios() []Scenario {
	return append(append(Scenarios(), PairScenarios()...), TripleScenarios()...)
}

// QuickScenarios: hand-written + pairs (the triples are thorough-tier only).
func QuickScenarios() []Scenario { return append(Scenarios(), PairScenarios()...) }

func scenarioByName(n string) *Scenario {
	for _, s := range AllScenarios() {
		if s.Name == n {
			return &s
		}
	}
	return nil
}

// callObs executes one client call and renders what the caller observed.
func callObs(st *rig.Stack, o ops.Op) string {
	switch o.K {
	case "stat", "list":
		return observe(st, o)
	case "hread":
		h := st.GetHandle(o.H)
		if h == nil {
			return "nohandle"
		}
		buf := make([]byte, o.N)
		n, err := h.F.Read(buf)
		h.Reads++
		if n < 0 {
			n = 0
		}
		return fmt.Sprintf("%s|%v", rig.DataKey(buf[:n]), errClass(ignoreEOF(err)))
	case "hlist":
		h := st.GetHandle(o.H)
		if h == nil {
			return "nohandle"
		}
		names, err := h.F.Readdirnames(-1)
		if err != nil {
			return "err"
		}
		return strings.Join(uniqSorted(names), ",")
	case "hreadall":
		h := st.GetHandle(o.H)
		if h == nil {
			return "nohandle"
		}
		b, err := rig.ReadAll(h.F)
		return fmt.Sprintf("%s|%v", rig.DataKey(b), errClass(err))
	case "put1":
		// one client call that is itself a short program: open(create, truncate) + write + close
		return errClass(ops.ExecImpl(st, ops.Op{K: "put", P: o.P, C: o.C}))
	}
	err := ops.ExecImpl(st, o)
	if err == ops.ErrNoHandle {
		return "nohandle"
	}
	return errClass(err)
}

func ignoreEOF(err error) error {
	if err != nil && err.Error() == "EOF" {
		return nil
	}
	return err
}

type callRec struct {
	Thread, Index int
	Obs           string
	Start, End    int
	Done          bool
}

type c11Exec struct {
	Calls    []*callRec
	Steps    []vsync.Step
	Hang     *Hang
	Crashes  []string
	Tree     string
	TapeHash string
	Rebuilt  string // "" = equal to the final tree, else description
	Harness  string
	// Malformed: live index entries that listing from the root does not reach, or whose parent is missing / not a directory
	Malformed []string
}

type C11Job struct {
	Scenario string `json:"scenario"`
	Prop     string `json:"prop,omitempty"` // "" = C11; "C13" = judge the well-formedness of the final namespace only
	Seams    bool   `json:"seams"`
	Bound    int    `json:"bound"`
	Prefix   []int  `json:"prefix"`
	Mode     string `json:"mode"` // expand | subtree | one
	MaxExec  int    `json:"max_exec,omitempty"`
}

type C11Res struct {
	Execs     int         `json:"execs"`
	Steps     int         `json:"steps"`
	MaxPoints int         `json:"max_points"`
	Children  [][]int     `json:"children,omitempty"`
	Outcomes  []string    `json:"outcomes,omitempty"`
	Capped    bool        `json:"capped,omitempty"`
	Viol      []Violation `json:"viol,omitempty"`
	Harness   string      `json:"harness,omitempty"`
	Sample    []string    `json:"sample,omitempty"`
}

// runSchedule executes the scenario once following prefix (then choice 0).
func runSchedule(env *Env, scn *Scenario, seams bool, prefix []int) *c11Exec {
	x := &c11Exec{}
	vsync.ResetClock()
	// phase 0: build + setup, sequential
	var st *rig.Stack
	ph := &Phase{Name: "setup"}
	info := RunManaged(ph, func() {
		var err error
		st, err = rig.NewStack(env.TempDir(), scn.Cfg, env.Keys)
		if err != nil {
			x.Harness = err.Error()
			return
		}
		if err := st.Init(); err != nil {
			x.Harness = "Initialize: " + err.Error()
			return
		}
		for _, o := range scn.Setup {
			if err := ops.ExecImpl(st, o); err != nil {
				x.Harness = fmt.Sprintf("setup %s: %v", o, err)
				return
			}
			vsync.Quiesce()
		}
	})
	if x.Harness != "" || info.Hang != nil || st == nil {
		if x.Harness == "" {
			x.Harness = "setup hung"
		}
		return x
	}
	defer st.Close()
	// phase 1: the concurrent part under the controlled scheduler
	s := vsync.NewSched()
	s.ParkAlways = true
	s.SeamPoints = seams
	s.KeepTrace = true
	s.MaxSteps = 20000
	pos := 0
	diverged := ""
	s.Choose = func(_ *vsync.Sched, enabled []*vsync.Thread, lastEnabled bool) int {
		c := 0
		if pos < len(prefix) {
			c = prefix[pos]
			if c >= len(enabled) {
				diverged = fmt.Sprintf("replay divergence at step %d: choice %d of %d enabled", pos, c, len(enabled))
				c = 0
			}
		}
		pos++
		return c
	}
	for ti, prog := range scn.Threads {
		ti, prog := ti, prog
		for ci := range prog {
			x.Calls = append(x.Calls, &callRec{Thread: ti, Index: ci})
		}
	}
	rec := func(ti, ci int) *callRec {
		for _, c := range x.Calls {
			if c.Thread == ti && c.Index == ci {
				return c
			}
		}
		return nil
	}
	ph2 := &Phase{Name: "concurrent"}
	info2 := RunSched(s, ph2, func() {
		for ti, prog := range scn.Threads {
			ti, prog := ti, prog
			s.Spawn(fmt.Sprintf("T%d", ti), func() {
				for ci, o := range prog {
					r := rec(ti, ci)
					r.Start = s.Steps
					var obs string
					_, pan := Guard(func() error { obs = callObs(st, o); return nil })
					if pan != "" {
						obs = "panic:" + strings.SplitN(pan, "\n", 2)[0]
					}
					r.Obs, r.End, r.Done = obs, s.Steps, true
				}
			})
		}
	})
	x.Steps = s.Trace
	x.Hang = info2.Hang
	x.Crashes = info2.Crashes
	if diverged != "" {
		x.Harness = diverged
		return x
	}
	if x.Hang != nil {
		return x
	}
	// phase 2: observe the final state sequentially
	ph3 := &Phase{Name: "final"}
	info3 := RunManaged(ph3, func() {
		for _, h := range st.Handles {
			_, _ = Guard(func() error { return h.F.Close() })
		}
		vsync.Quiesce()
		tree := rig.Walk(st.AFS, "/")
		vsync.Quiesce()
		x.Malformed = malformed(st, tree)
		x.Tree = treeString(tree, true) + malformedSuffix(x.Malformed)
		x.TapeHash = fileHash(st.Drive)
		rb, ierr, herr := Rebuild(env, st.Cfg, st.Drive)
		if herr != nil {
			return
		}
		defer rb.Close()
		if ierr != nil {
			x.Rebuilt = "rebuild error: " + NormErr(ierr)
			return
		}
		rt := rig.Walk(rb.AFS, "/")
		vsync.Quiesce()
		if shape, detail := diffTrees(rt, tree, true, func(string) string { return "entry" }); len(shape) > 0 {
			x.Rebuilt = strings.Join(shape, ",") + " :: " + strings.Join(detail, "; ")
		}
	})
	if info3.Hang != nil {
		x.Hang = info3.Hang
		x.Hang.Phase = "final-walk"
	}
	return x
}

// treeString renders a tree; logical-clock timestamps depend on the order of calls, so they are left out when
// comparing a concurrent run with sequential ones (noTimes).
func treeString(t []rig.Entry, noTimes bool) string {
	parts := []string{}
	for _, e := range t {
		if noTimes {
			parts = append(parts, fmt.Sprintf("%s %s %d %o %d:%d %s %s", e.Kind, e.Path, e.Size, e.Perm, e.UID, e.GID, e.Data, e.Err))
		} else {
			parts = append(parts, e.String())
		}
	}
	return strings.Join(parts, "\n")
}

// sequential reference: every program-order-respecting permutation, executed on the real implementation
type seqRef struct {
	order []int // indices into the flat call list
	obs   []string
	tree  string
}

var seqCache = map[string][]seqRef{}

func flatCalls(scn *Scenario) (calls []ops.Op, thread []int) {
	for ti, prog := range scn.Threads {
		for _, o := range prog {
			calls = append(calls, o)
			thread = append(thread, ti)
		}
	}
	return
}

func seqRefs(env *Env, scn *Scenario) ([]seqRef, string) {
	if r, ok := seqCache[scn.Name]; ok {
		return r, ""
	}
	calls, thread := flatCalls(scn)
	n := len(calls)
	var orders [][]int
	next := make([]int, len(scn.Threads)) // per thread: how many issued
	start := make([]int, len(scn.Threads))
	off := 0
	for ti, prog := range scn.Threads {
		start[ti] = off
		off += len(prog)
	}
	var cur []int
	var gen func()
	gen = func() {
		if len(cur) == n {
			orders = append(orders, append([]int(nil), cur...))
			return
		}
		for ti, prog := range scn.Threads {
			if next[ti] < len(prog) {
				cur = append(cur, start[ti]+next[ti])
				next[ti]++
				gen()
				next[ti]--
				cur = cur[:len(cur)-1]
			}
		}
	}
	gen()
	_ = thread
	refs := []seqRef{}
	for _, order := range orders {
		ref := seqRef{order: order, obs: make([]string, n)}
		vsync.ResetClock()
		harness := ""
		hung := false
		ph := &Phase{Name: "seq"}
		info := RunManaged(ph, func() {
			st, err := rig.NewStack(env.TempDir(), scn.Cfg, env.Keys)
			if err != nil {
				harness = err.Error()
				return
			}
			defer st.Close()
			if err := st.Init(); err != nil {
				harness = err.Error()
				return
			}
			for _, o := range scn.Setup {
				_ = ops.ExecImpl(st, o)
				vsync.Quiesce()
			}
			for _, ci := range order {
				var obs string
				_, pan := Guard(func() error { obs = callObs(st, calls[ci]); return nil })
				if pan != "" {
					obs = "panic:" + strings.SplitN(pan, "\n", 2)[0]
				}
				ref.obs[ci] = obs
				// no Quiesce between calls: a background Restore may legitimately still be running
			}
			for _, h := range st.Handles {
				_, _ = Guard(func() error { return h.F.Close() })
			}
			vsync.Quiesce()
			t := rig.Walk(st.AFS, "/")
			vsync.Quiesce()
			// index entries that no listing reaches are part of the final state too (hidden from the walk, not from later calls)
			ref.tree = treeString(t, true) + malformedSuffix(malformed(st, t))
		})
		if harness != "" {
			return nil, harness
		}
		if info.Hang != nil {
			hung = true
		}
		if hung {
			ref.tree = "HANG:" + info.Hang.Key()
		}
		refs = append(refs, ref)
	}
	seqCache[scn.Name] = refs
	return refs, ""
}

func judgeC11(env *Env, scn *Scenario, x *c11Exec, sched string) []Violation {
	var out []Violation
	add := func(class, detail string) {
		out = append(out, Violation{Prop: "C11", Class: class, Detail: fmt.Sprintf("scenario %s; schedule %s\n%s", scn.Name, sched, detail)})
	}
	calls, _ := flatCalls(scn)
	desc := func() string {
		parts := []string{}
		for i, c := range x.Calls {
			parts = append(parts, fmt.Sprintf("T%d:%s => %s [%d..%d]", c.Thread, calls[i], c.Obs, c.Start, c.End))
		}
		return strings.Join(parts, "\n")
	}
	for _, c := range x.Crashes {
		add(fmt.Sprintf("C11|bg-panic|%s|%s", scn.Name, NormErr(fmt.Errorf("%s", c))), "a background goroutine panicked: "+c+"\n"+desc())
	}
	if x.Hang != nil {
		add(fmt.Sprintf("C11|deadlock|%s|%s", scn.Name, x.Hang.Key()), fmt.Sprintf("not every call completes: deadlock in phase %s; waiters %+v\n%s", x.Hang.Phase, x.Hang.Waiters, desc()))
		return out
	}
	for i, c := range x.Calls {
		if strings.HasPrefix(c.Obs, "panic:") {
			add(fmt.Sprintf("C11|panic|%s|%s", scn.Name, calls[i].K), desc())
		}
	}
	refs, harness := seqRefs(env, scn)
	if harness != "" {
		return append(out, Violation{Prop: "HARNESS", Class: harness})
	}
	// linearizable: some sequential order consistent with real time gives the same observations and final tree
	match := false
	obsOnly := false
	for _, r := range refs {
		posIn := make([]int, len(r.order))
		for p, ci := range r.order {
			posIn[ci] = p
		}
		ok := true
		for a := range x.Calls {
			for b := range x.Calls {
				if x.Calls[a].End < x.Calls[b].Start && posIn[a] > posIn[b] {
					ok = false
				}
			}
		}
		if !ok {
			continue
		}
		same := true
		for i, c := range x.Calls {
			if c.Obs != r.obs[i] {
				same = false
			}
		}
		if same {
			obsOnly = true
			if r.tree == x.Tree {
				match = true
				break
			}
		}
	}
	if !match {
		what := "outcomes"
		if obsOnly {
			what = "final-tree"
		}
		obs := []string{}
		for i, c := range x.Calls {
			obs = append(obs, fmt.Sprintf("%s=%s", calls[i].K, c.Obs))
		}
		add(fmt.Sprintf("C11|not-linearizable|%s|%s", scn.Name, what), fmt.Sprintf("no sequential order of the calls that respects their real-time order gives these observations and this final tree\n%s\nfinal tree:\n%s", desc(), x.Tree))
	}
	if x.Rebuilt != "" {
		add(fmt.Sprintf("C11|final-state-not-reproducible-from-tape|%s|%s", scn.Name, strings.SplitN(x.Rebuilt, " :: ", 2)[0]), "rebuild of the final tape vs final tree: "+x.Rebuilt+"\n"+desc())
	}
	return out
}

// malformed compares the live index rows with the tree reached by listing from the root (the C13 clauses that do not
// depend on a history): every live entry is reached, and every entry other than the root has a live parent directory.
func malformed(st *rig.Stack, tree []rig.Entry) []string {
	rows, err := rig.DumpIndex(st.Index)
	if err != nil {
		return []string{"index-unreadable:" + err.Error()}
	}
	reach := map[string]rig.Entry{}
	for _, e := range tree {
		reach[e.Path] = e
	}
	live := map[string]rig.Row{}
	for _, r := range rows {
		if r.Deleted == 1 {
			continue
		}
		p := rig.NormName(r.Name)
		if r.Linkname != "" {
			p = rig.NormName(r.Linkname)
		}
		live[p] = r
	}
	out := []string{}
	for p := range live {
		if p == "/" {
			continue
		}
		par, ok := live[path.Dir(p)]
		switch {
		case !ok:
			out = append(out, "orphan:"+p)
		case par.Typeflag != int64(tar.TypeDir):
			out = append(out, "parent-not-dir:"+p)
		default:
			if _, ok := reach[p]; !ok {
				out = append(out, "unreachable:"+p)
			}
		}
	}
	for p, e := range reach {
		if _, ok := live[p]; !ok {
			out = append(out, "listed-not-live:"+p)
		}
		if strings.HasPrefix(e.Err, "open:") || strings.HasPrefix(e.Err, "readdir:") {
			out = append(out, "listed-but-cannot-be-opened:"+p+" ("+e.Err+")")
		}
	}
	sort.Strings(out)
	return out
}

func malformedSuffix(m []string) string {
	if len(m) == 0 {
		return ""
	}
	return "\n!index entries outside the tree: " + strings.Join(m, "; ")
}

// judgeC13: whatever the interleaving, the namespace the calls leave behind is a well-formed tree.
func judgeC13(scn *Scenario, x *c11Exec, sched string) []Violation {
	if x.Hang != nil || len(x.Malformed) == 0 {
		return nil // completion is C10/C11's business
	}
	calls, _ := flatCalls(scn)
	parts := []string{}
	for i, c := range x.Calls {
		parts = append(parts, fmt.Sprintf("T%d:%s => %s [%d..%d]", c.Thread, calls[i], c.Obs, c.Start, c.End))
	}
	kinds := map[string]bool{}
	for _, m := range x.Malformed {
		kinds[strings.SplitN(m, ":", 2)[0]] = true
	}
	ks := []string{}
	for k := range kinds {
		ks = append(ks, k)
	}
	sort.Strings(ks)
	return []Violation{{Prop: "C13", Class: fmt.Sprintf("C13|concurrent-callers|%s|%s", strings.Join(ks, ","), scn.Name),
		Detail: fmt.Sprintf("scenario %s; schedule %s\n%s\nafter these calls: %s\nfinal tree:\n%s", scn.Name, sched, strings.Join(parts, "\n"), strings.Join(x.Malformed, "; "), x.Tree)}}
}

func schedString(steps []vsync.Step) string {
	parts := []string{}
	for _, s := range steps {
		if len(s.Enabled) > 1 {
			parts = append(parts, fmt.Sprintf("%d", s.Thread))
		}
	}
	return strings.Join(parts, "")
}

// RunC11 explores schedules: "one" = just the given prefix; "expand" = run the prefix and return its children;
// "subtree" = everything below the prefix within the preemption bound.
func RunC11(env *Env, job *C11Job) *C11Res {
	res := &C11Res{}
	scn := scenarioByName(job.Scenario)
	if scn == nil {
		res.Harness = "unknown scenario " + job.Scenario
		return res
	}
	outcomes := map[string]bool{}
	type item struct{ prefix []int }
	stack := []item{{append([]int(nil), job.Prefix...)}}
	maxExec := job.MaxExec
	if maxExec == 0 {
		maxExec = 200000
	}
	for len(stack) > 0 {
		it := stack[len(stack)-1]
		stack = stack[:len(stack)-1]
		if res.Execs >= maxExec {
			res.Capped = true
			break
		}
		x := runSchedule(env, scn, job.Seams, it.prefix)
		env.CleanScratch()
		res.Execs++
		res.Steps += len(x.Steps)
		if len(x.Steps) > res.MaxPoints {
			res.MaxPoints = len(x.Steps)
		}
		if x.Harness != "" {
			res.Harness = fmt.Sprintf("%s (prefix %v)", x.Harness, it.prefix)
			return res
		}
		choices := make([]int, len(x.Steps))
		for i, s := range x.Steps {
			choices[i] = s.Choice
		}
		sched := fmt.Sprintf("%v", trimZeros(choices))
		var viol []Violation
		if job.Prop == "C13" {
			viol = judgeC13(scn, x, sched)
		} else {
			viol = judgeC11(env, scn, x, sched)
		}
		for _, v := range viol {
			if v.Prop == "HARNESS" {
				res.Harness = v.Class
				return res
			}
			v.Sched = trimZeros(choices)
			res.Viol = append(res.Viol, v)
		}
		o := []string{}
		for _, c := range x.Calls {
			o = append(o, c.Obs)
		}
		key := strings.Join(o, ",") + "|" + shortHashS(x.Tree)
		if x.Hang != nil {
			key = "deadlock:" + x.Hang.Key()
		}
		outcomes[key] = true
		if len(res.Sample) < 2 {
			res.Sample = append(res.Sample, fmt.Sprintf("%s: schedule %s (%d points) -> %s", scn.Name, schedString(x.Steps), len(x.Steps), key))
		}
		if job.Mode == "one" {
			break
		}
		// children
		pre := 0
		for i := 0; i < len(x.Steps); i++ {
			s := x.Steps[i]
			if i >= len(it.prefix) {
				for alt := 1; alt < len(s.Enabled); alt++ {
					cost := pre
					if s.RunningEnabled {
						cost++
					}
					if cost > job.Bound {
						continue
					}
					child := append(append([]int(nil), choices[:i]...), alt)
					if job.Mode == "expand" {
						res.Children = append(res.Children, child)
					} else {
						stack = append(stack, item{child})
					}
				}
			}
			if s.Choice > 0 && s.RunningEnabled {
				pre++
			}
		}
		if job.Mode == "expand" {
			break
		}
	}
	for k := range outcomes {
		res.Outcomes = append(res.Outcomes, k)
	}
	sort.Strings(res.Outcomes)
	return res
}

func trimZeros(c []int) []int {
	n := len(c)
	for n > 0 && c[n-1] == 0 {
		n--
	}
	return append([]int(nil), c[:n]...)
}

func shortHashS(s string) string { return hashKey(s)[:8] }

// RaceBody runs a scenario with real goroutines and real locks (vsync in free mode). It is meant for the binary built
// with -race: the race detector reports to stderr; this function only reports whether all threads finished.
func RaceBody(env *Env, name string, iterations int) (finished int, stuck int, err error) {
	scn := scenarioByName(name)
	if scn == nil {
		return 0, 0, fmt.Errorf("unknown scenario %s", name)
	}
	vsync.Install(nil)
	for it := 0; it < iterations; it++ {
		st, err := rig.NewStack(env.TempDir(), scn.Cfg, env.Keys)
		if err != nil {
			return finished, stuck, err
		}
		if err := st.Init(); err != nil {
			return finished, stuck, err
		}
		for _, o := range scn.Setup {
			_ = ops.ExecImpl(st, o)
		}
		done := make(chan struct{}, len(scn.Threads))
		yield := it%2 == 1
		for _, prog := range scn.Threads {
			prog := prog
			go func() {
				defer func() { _ = recover(); done <- struct{}{} }()
				for _, o := range prog {
					_ = callObs(st, o)
					if yield {
						runtimeGosched()
					}
				}
			}()
		}
		ok := true
		for range scn.Threads {
			select {
			case <-done:
			case <-timeAfter(20):
				ok = false
			}
		}
		if !ok {
			stuck++
			if stuck >= 3 {
				break // a scenario that deadlocks free-running (D11) costs 20 s per iteration and tells the race detector nothing new
			}
			continue // leaked on purpose; the deadlock itself is the scheduler's business
		}
		for _, h := range st.Handles {
			_ = h.F.Close()
		}
		vsync.WaitFree()
		_ = rig.Walk(st.AFS, "/")
		vsync.WaitFree()
		st.Close()
		env.CleanScratch()
		finished++
	}
	return finished, stuck, nil
}

func runtimeGosched()                    { runtime.Gosched() }
func timeAfter(sec int) <-chan time.Time { return time.After(time.Duration(sec) * time.Second) }
