package engines

import (
	"archive/tar"
	"bytes"
	"errors"
	"fmt"
	"io"
	"io/fs"

	"github.com/pojntfx/stfs/pkg/compression"
	"github.com/pojntfx/stfs/pkg/config"
	"github.com/pojntfx/stfs/pkg/zzverif/vsync"
	"github.com/pojntfx/stfs/pkg/zzverif/zzx"
	"stfsmc/ops"
	"stfsmc/rig"
)

// C03Job: one pipeline configuration, several contents.
type C03Job struct {
	Cfg      rig.Config `json:"cfg"`
	Contents []string   `json:"contents"`
	Patterns []int      `json:"patterns,omitempty"` // write patterns (0 single Write, 1 Write+Sync+Write, 2 WriteString x2, 3 WriteAt back-fill, 4 Write all + Seek to the middle + Stat + Write the rest again); default {0}
	Codec    bool       `json:"codec,omitempty"`    // component level: non-regular codec parameters + tape writer padding
}

type C03Res struct {
	Evals    int         `json:"evals"`
	Distinct []string    `json:"distinct"`
	Refused  []string    `json:"refused,omitempty"`
	Viol     []Violation `json:"viol,omitempty"`
	Info     ExecInfo    `json:"info"`
	Harness  string      `json:"harness,omitempty"`
}

func lenClass(n, rs int) string {
	rec := 512 * rs
	switch {
	case n == 0:
		return "0"
	case n == 1:
		return "1"
	case n == 511, n == 512, n == 513:
		return fmt.Sprint(n)
	case n == rec-1:
		return "rec-1"
	case n == rec:
		return "rec"
	case n == rec+1:
		return "rec+1"
	case n > rec:
		return "many-records"
	}
	return "other"
}

func RunC03(env *Env, job *C03Job) *C03Res {
	if job.Codec {
		return runC03Codec(env, job)
	}
	res := &C03Res{}
	ph := &Phase{Name: "setup"}
	cfg := job.Cfg.Normalised()
	// class keys name the pipeline without the level (the level is in the detail and in the coverage cells)
	pipe := fmt.Sprintf("comp=%s|enc=%s|sig=%s", nzs(cfg.Compression), nzs(cfg.Encryption), nzs(cfg.Signature))
	cell := fmt.Sprintf("comp=%s|level=%s|enc=%s|sig=%s", nzs(cfg.Compression), cfg.Level, nzs(cfg.Encryption), nzs(cfg.Signature))
	viol := func(class, detail string) {
		res.Viol = append(res.Viol, Violation{Prop: "C03", Class: class, Detail: detail})
	}
	info := RunManaged(ph, func() {
		st, err := rig.NewStack(env.TempDir(), job.Cfg, env.Keys)
		if err != nil {
			res.Harness = "NewStack: " + err.Error()
			return
		}
		defer st.Close()
		if err := st.Init(); err != nil {
			viol("C03|initialize-fails|"+pipe+"|"+NormErr(err), fmt.Sprintf("config %s: Initialize on an empty drive failed: %v", cfg, err))
			return
		}
		written := map[int][]byte{}
		patterns := job.Patterns
		if len(patterns) == 0 {
			patterns = []int{0}
		}
		for i, spec := range job.Contents {
			data := ops.Content(spec)
			p := fmt.Sprintf("/f%d", i)
			lc := lenClass(len(data), cfg.RecordSize)
			pat := patterns[i%len(patterns)]
			ph.Name = "write " + spec
			err, pan := Guard(func() error { return ops.ExecImpl(st, ops.Op{K: "putp", P: p, C: spec, N: pat}) })
			vsync.Quiesce()
			res.Evals++
			res.Distinct = append(res.Distinct, fmt.Sprintf("%s|rs=%d|wc=%s|len=%s|fill=%c|pattern=%d", cell, cfg.RecordSize, cfg.WriteCache, lc, fillOf(spec), pat))
			if pan != "" {
				viol(fmt.Sprintf("C03|write-panic|%s|len=%s", pipe, lc), fmt.Sprintf("config %s, content %s: %s", cfg, spec, pan))
				continue
			}
			if err != nil {
				viol(fmt.Sprintf("C03|write-error|%s|len=%s|%s", pipe, lc, NormErr(err)), fmt.Sprintf("config %s, content %s (%d bytes): writing failed: %v", cfg, spec, len(data), err))
				continue
			}
			written[i] = data
			if i%2 == 1 {
				// a metadata-only record behind the content record must not change the size or the bytes read back
				ph.Name = "chmod " + spec
				err, pan := Guard(func() error { return ops.ExecImpl(st, ops.Op{K: "chmod", P: p, N: 0o640}) })
				vsync.Quiesce()
				if pan != "" {
					viol(fmt.Sprintf("C03|chmod-panic|%s|len=%s", pipe, lc), fmt.Sprintf("config %s, content %s: Chmod after the write: %s", cfg, spec, pan))
				} else if err != nil {
					viol(fmt.Sprintf("C03|chmod-error|%s|len=%s|%s", pipe, lc, NormErr(err)), fmt.Sprintf("config %s, content %s: Chmod after the write failed: %v", cfg, spec, err))
				}
			}
		}
		// observations on a reopened instance (fresh process view)
		ph.Name = "reopen"
		ro, err := Reopen(env, st.Cfg, st)
		if err != nil {
			res.Harness = "reopen: " + err.Error()
			return
		}
		defer ro.Close()
		if err := ro.Init(); err != nil {
			viol("C03|reopen-fails|"+pipe+"|"+NormErr(err), fmt.Sprintf("config %s: Initialize on reopen failed: %v", cfg, err))
			return
		}
		for i, spec := range job.Contents {
			data, ok := written[i]
			if !ok {
				continue
			}
			p := fmt.Sprintf("/f%d", i)
			lc := lenClass(len(data), cfg.RecordSize)
			if len(data) > 0 {
				lc = "n>0" // classes only matter where the unchanged tree misbehaves (empty payloads)
			}
			where := fmt.Sprintf("config %s, content %s (%d bytes), write pattern %d", cfg, spec, len(data), patterns[i%len(patterns)])
			// (1) size
			ph.Name = "stat " + spec
			fi, err := ro.FS.Stat(p)
			if err != nil {
				viol(fmt.Sprintf("C03|stat-error|%s|len=%s", pipe, lc), where+": Stat: "+err.Error())
				continue
			}
			if fi.Size() != int64(len(data)) {
				viol(fmt.Sprintf("C03|size|%s|len=%s", pipe, lc), where+fmt.Sprintf(": Stat().Size() = %d", fi.Size()))
			}
			// (2) read through the file system
			ph.Name = "read " + spec
			var b []byte
			_, pan := Guard(func() error { b, err = rig.ReadFile(ro.FS, p); return nil })
			vsync.Quiesce()
			if pan != "" {
				viol(fmt.Sprintf("C03|read-panic|%s|len=%s", pipe, lc), where+": "+pan)
			} else if err != nil {
				viol(fmt.Sprintf("C03|read-error|%s|len=%s|%s", pipe, lc, NormErr(err)), where+": reading through the file system failed: "+err.Error())
			} else if !bytes.Equal(b, data) {
				viol(fmt.Sprintf("C03|read-differs|%s|len=%s", pipe, lc), where+fmt.Sprintf(": read back %s, wrote %s", rig.DataKey(b), rig.DataKey(data)))
			}
			// (3) restore through the archive interface
			ph.Name = "restore " + spec
			buf := &bufCloser{}
			_, pan = Guard(func() error {
				err = ro.ReadOps.Restore(func(string, fs.FileMode) (io.WriteCloser, error) { return buf, nil }, func(string, fs.FileMode) error { return nil }, p, "", true)
				return nil
			})
			vsync.Quiesce()
			if pan != "" {
				viol(fmt.Sprintf("C03|restore-panic|%s|len=%s", pipe, lc), where+": "+pan)
			} else if err != nil {
				viol(fmt.Sprintf("C03|restore-error|%s|len=%s|%s", pipe, lc, NormErr(err)), where+": Operations.Restore failed: "+err.Error())
			} else if !bytes.Equal(buf.Bytes(), data) {
				viol(fmt.Sprintf("C03|restore-differs|%s|len=%s", pipe, lc), where+fmt.Sprintf(": restored %s, wrote %s", rig.DataKey(buf.Bytes()), rig.DataKey(data)))
			}
			// (4) fetch by tape position
			ph.Name = "fetch " + spec
			hdr, err := ro.MP.GetHeader(ctxBG, p)
			if err != nil {
				viol(fmt.Sprintf("C03|no-index-row|%s|len=%s", pipe, lc), where+": "+err.Error())
				continue
			}
			var fb []byte
			_, pan = Guard(func() error { fb, _, err = fetchAt(ro, hdr.Record, hdr.Block); return nil })
			vsync.Quiesce()
			if pan != "" {
				viol(fmt.Sprintf("C03|fetch-panic|%s|len=%s", pipe, lc), where+": "+pan)
			} else if err != nil {
				viol(fmt.Sprintf("C03|fetch-error|%s|len=%s|%s", pipe, lc, NormErr(err)), where+fmt.Sprintf(": recovery.Fetch at (%d,%d) failed: %v", hdr.Record, hdr.Block, err))
			} else if !bytes.Equal(fb, data) {
				viol(fmt.Sprintf("C03|fetch-differs|%s|len=%s", pipe, lc), where+fmt.Sprintf(": fetched %s, wrote %s", rig.DataKey(fb), rig.DataKey(data)))
			}
		}
	})
	res.Info = info
	if info.Hang != nil {
		viol(fmt.Sprintf("C03|hang|%s|phase=%s|%s", pipe, phaseKind(info.Hang.Phase), info.Hang.Key()), fmt.Sprintf("config %s: deadlock in phase %q; waiters %+v", cfg, info.Hang.Phase, info.Hang.Waiters))
	}
	for _, c := range info.Crashes {
		viol(fmt.Sprintf("C03|bg-panic|%s|%s", pipe, NormErr(fmt.Errorf("%s", c))), fmt.Sprintf("config %s: background goroutine panicked: %s", cfg, c))
	}
	if info.ClientPanic != "" && res.Harness == "" {
		res.Harness = "client thread panicked outside a guarded call: " + info.ClientPanic
	}
	return res
}

func nzs(s string) string {
	if s == "" {
		return "none"
	}
	return s
}

func fillOf(spec string) byte {
	if len(spec) > 0 && (spec[0] == 'T' || spec[0] == 'Z' || spec[0] == 'R') {
		return spec[0]
	}
	return 'L'
}

// runC03Codec: component level — codec parameter selection for non-regular drives and tape-writer padding.
func runC03Codec(env *Env, job *C03Job) *C03Res {
	res := &C03Res{}
	cfg := job.Cfg.Normalised()
	viol := func(class, detail string) {
		res.Viol = append(res.Viol, Violation{Prop: "C03", Class: class, Detail: detail})
	}
	for _, regular := range []bool{true, false} {
		for _, spec := range job.Contents {
			data := ops.Content(spec)
			res.Evals++
			key := fmt.Sprintf("codec|comp=%s|level=%s|rs=%d|regular=%v|len=%s", nzs(cfg.Compression), cfg.Level, cfg.RecordSize, regular, lenClass(len(data), cfg.RecordSize))
			res.Distinct = append(res.Distinct, key)
			var out bytes.Buffer
			func() {
				defer func() {
					if r := recover(); r != nil {
						viol("C03|codec-panic|"+key, fmt.Sprintf("%v", r))
					}
				}()
				w, err := compression.Compress(&out, cfg.Compression, cfg.Level, regular, cfg.RecordSize)
				if err != nil {
					// a refusal at construction time for a tape-drive parameter set is not a round-trip failure; it is
					// recorded (with its error) in the evidence. Construction errors for regular files are violations.
					_ = errors.Is(err, config.ErrCompressionFormatRegularOnly)
					if !regular {
						res.Refused = append(res.Refused, key+": "+err.Error())
						return
					}
					viol(fmt.Sprintf("C03|codec-refused|comp=%s|level=%s|regular=%v|%s", nzs(cfg.Compression), cfg.Level, regular, NormErr(err)), key+": "+err.Error())
					return
				}
				buf := make([]byte, 512*cfg.RecordSize)
				if _, err := io.CopyBuffer(w, bytes.NewReader(data), buf); err != nil {
					viol("C03|codec-write-error|"+key, err.Error())
					return
				}
				if err := w.Flush(); err != nil {
					viol("C03|codec-flush-error|"+key, err.Error())
					return
				}
				if err := w.Close(); err != nil {
					viol("C03|codec-close-error|"+key, err.Error())
					return
				}
				r, err := compression.Decompress(bytes.NewReader(out.Bytes()), cfg.Compression)
				if err != nil {
					if len(data) == 0 {
						return // an empty stream is the business of the file-system level check
					}
					viol("C03|codec-decompress-open|"+key, err.Error())
					return
				}
				back, err := io.ReadAll(r)
				if err != nil {
					viol("C03|codec-decompress-error|"+key, err.Error())
					return
				}
				if !bytes.Equal(back, data) {
					viol("C03|codec-roundtrip-differs|"+key, fmt.Sprintf("%s vs %s", rig.DataKey(back), rig.DataKey(data)))
				}
			}()
		}
	}
	// tape writer: the output on a non-regular drive is a whole number of records
	for _, n := range []int{0, 1, 600} {
		var out bytes.Buffer
		tw, cleanup, err := zzx.NewTapeWriter(&out, false, cfg.RecordSize)
		if err != nil {
			viol("C03|tapewriter-error", err.Error())
			continue
		}
		res.Evals++
		res.Distinct = append(res.Distinct, fmt.Sprintf("tapewriter|rs=%d|payload=%d", cfg.RecordSize, n))
		hdr := &tar.Header{Typeflag: tar.TypeReg, Name: "x", Size: int64(n), Mode: 0o644, Format: tar.FormatPAX}
		_ = tw.WriteHeader(hdr)
		_, _ = tw.Write(make([]byte, n))
		dirty := true
		if err := cleanup(&dirty); err != nil {
			viol("C03|tapewriter-cleanup-error", err.Error())
			continue
		}
		if out.Len() == 0 || out.Len()%512 != 0 {
			viol(fmt.Sprintf("C03|tapewriter-not-block-aligned|rs=%d", cfg.RecordSize), fmt.Sprintf("record size %d, payload %d: the tape writer produced %d bytes, not a whole number of 512-byte blocks", cfg.RecordSize, n, out.Len()))
		}
	}
	return res
}
