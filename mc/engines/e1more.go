package engines

import (
	"io"

	"github.com/pojntfx/stfs/pkg/config"
)

type configHeader = config.Header

var errEOF = io.EOF

func (c *stepCtx) oracleC04() {}
func (c *stepCtx) oracleC07() {}
func (c *stepCtx) oracleC09() {}
func (c *stepCtx) oracleC12() {}
