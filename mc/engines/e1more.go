package engines

import (
	"archive/tar"
	"bytes"
	"encoding/base64"
	"encoding/hex"
	"fmt"
	"io"
	"io/fs"
	"os"
	"sort"
	"strings"
	"time"

	"github.com/pojntfx/stfs/pkg/config"
	"github.com/pojntfx/stfs/pkg/recovery"
	"github.com/pojntfx/stfs/pkg/zzverif/vsync"
	"stfsmc/model"
	"stfsmc/ops"
	"stfsmc/rig"
)

type configHeader = config.Header

var errEOF = io.EOF

// divergedFlat (archive level): live index rows vs the flat model (names, kinds, sizes).
func (c *stepCtx) divergedFlat() (bool, string) {
	live := map[string]rig.Row{}
	for _, r := range c.liveRows {
		if r.Deleted != 1 {
			live[rig.NormName(r.Name)] = r
		}
	}
	diffs := []string{}
	for p, n := range c.m.N {
		r, ok := live[p]
		if !ok {
			diffs = append(diffs, p+":missing")
			continue
		}
		if (r.Typeflag == int64(tar.TypeDir)) != n.Dir {
			diffs = append(diffs, p+":kind")
		} else if !n.Dir && r.Size != int64(len(n.Data)) {
			diffs = append(diffs, fmt.Sprintf("%s:size %d vs %d", p, r.Size, len(n.Data)))
		}
	}
	for p := range live {
		if _, ok := c.m.N[p]; !ok {
			diffs = append(diffs, p+":extra")
		}
	}
	sort.Strings(diffs)
	return len(diffs) > 0, strings.Join(diffs, ", ")
}

type bufCloser struct{ bytes.Buffer }

func (b *bufCloser) Close() error { return nil }

// fetchAt runs recovery.Fetch at (record, block) through the stack's read backend.
func fetchAt(st *rig.Stack, record, block int64) (data []byte, isDir bool, err error) {
	ro := st.ReadOps
	reader, err := ro.GetBackend().GetReader()
	if err != nil {
		return nil, false, fmt.Errorf("GetReader: %w", err)
	}
	defer ro.GetBackend().CloseReader()
	buf := &bufCloser{}
	err = recovery.Fetch(reader, ro.GetBackend().MagneticTapeIO, ro.GetPipes(), ro.GetCrypto(),
		func(path string, mode fs.FileMode) (io.WriteCloser, error) { return buf, nil },
		func(path string, mode fs.FileMode) error { isDir = true; return nil },
		int(record), int(block), "x", false, nil)
	return buf.Bytes(), isDir, err
}

// oracleC04: index positions designate the right records.
func (c *stepCtx) oracleC04() {
	rs := int64(c.st.Cfg.RecordSize)
	starts := map[int64]int{}
	for i, r := range c.scan.Recs {
		starts[r.Off] = i
	}
	plain := c.st.Cfg.Compression == "" && c.st.Cfg.Encryption == "" && c.st.Cfg.Signature == ""
	for _, row := range c.liveRows {
		if row.Deleted == 1 {
			continue
		}
		p := rig.NormName(row.Name)
		if row.Linkname != "" {
			continue // symlink rows are outside the modelled alphabets
		}
		off := (row.Record*rs + row.Block) * 512
		if row.Block >= rs || row.Block < 0 {
			c.viol("C04", "C04|block>=recordsize|"+c.shape, fmt.Sprintf("history: %s\n%s: block %d with record size %d", c.hist(), p, row.Block, rs))
		}
		if row.LastBlock >= rs || row.LastBlock < 0 {
			c.viol("C04", "C04|lastknownblock>=recordsize|"+c.shape, fmt.Sprintf("history: %s\n%s: lastknownblock %d with record size %d", c.hist(), p, row.LastBlock, rs))
		}
		if row.LastRecord*rs+row.LastBlock < row.Record*rs+row.Block {
			c.viol("C04", "C04|lastknown-before-content|"+c.shape, fmt.Sprintf("history: %s\n%s: last known (%d,%d) is before content position (%d,%d)", c.hist(), p, row.LastRecord, row.LastBlock, row.Record, row.Block))
		}
		ri, ok := starts[off]
		if !ok {
			c.viol("C04", "C04|position-not-a-record-start|"+c.shape, fmt.Sprintf("history: %s\n%s: position (%d,%d) = byte %d is not the start of a record (record starts: %v)", c.hist(), p, row.Record, row.Block, off, recStarts(c.scan)))
			continue
		}
		if lo := (row.LastRecord*rs + row.LastBlock) * 512; true {
			if _, ok := starts[lo]; !ok {
				c.viol("C04", "C04|lastknown-not-a-record-start|"+c.shape, fmt.Sprintf("history: %s\n%s: last known position (%d,%d) = byte %d is not the start of a record", c.hist(), p, row.LastRecord, row.LastBlock, lo))
			}
		}
		n, inModel := c.m.N[p]
		rec := c.scan.Recs[ri]
		if plain {
			// the record must be a content-carrying one (create, or update that replaces content)
			act := rec.Pax["STFS.Action"]
			carrier := act == "" || act == "CREATE" || (act == "UPDATE" && rec.Pax["STFS.ReplacesContent"] == "true" && rec.Pax["STFS.ReplacesName"] == "")
			if !carrier {
				c.viol("C04", "C04|position-at-non-content-record|"+c.shape+"|action="+act, fmt.Sprintf("history: %s\n%s: position (%d,%d) designates a %s record (pax %v) which does not carry the entry's content", c.hist(), p, row.Record, row.Block, act, rec.Pax))
			}
		}
		if !inModel {
			continue
		}
		data, isDir, err := fetchAt(c.st, row.Record, row.Block)
		vsync.Quiesce()
		if err != nil {
			c.viol("C04", "C04|fetch-error|"+c.shape+"|"+kindOf(c.m, p)+"|"+NormErr(err), fmt.Sprintf("history: %s\n%s: Fetch at (%d,%d) failed: %v", c.hist(), p, row.Record, row.Block, err))
			continue
		}
		if n.Dir != isDir {
			c.viol("C04", "C04|fetch-kind|"+c.shape, fmt.Sprintf("history: %s\n%s: Fetch at (%d,%d) dir=%v, reference dir=%v", c.hist(), p, row.Record, row.Block, isDir, n.Dir))
		} else if !n.Dir && !bytes.Equal(data, n.Data) {
			c.viol("C04", "C04|fetch-content|"+c.shape, fmt.Sprintf("history: %s\n%s: Fetch at (%d,%d) returned %s, current content is %s", c.hist(), p, row.Record, row.Block, rig.DataKey(data), rig.DataKey(n.Data)))
		}
	}
	// last indexed position = start of the final record on the tape
	if len(c.scan.Recs) > 0 && c.scan.Complete {
		lr, lb, err := c.st.MP.GetLastIndexedRecordAndBlock(ctxBG, int(rs))
		last := c.scan.Recs[len(c.scan.Recs)-1].Off
		if err != nil {
			c.viol("C04", "C04|last-indexed-error|"+c.shape, err.Error())
		} else if (lr*rs+lb)*512 != last {
			c.poisoned = true // every later write would be indexed at wrong positions: a dead end, not a new finding
			c.viol("C04", "C04|last-indexed-position|"+c.shape, fmt.Sprintf("history: %s\nindex says last written position is (%d,%d) = byte %d, final record on the tape starts at %d", c.hist(), lr, lb, (lr*rs+lb)*512, last))
		}
		// Query(0,0) reports exactly the scanner's positions
		ro := c.st.ReadOps
		reader, err := ro.GetBackend().GetReader()
		if err == nil {
			got := []int64{}
			_, qerr := recovery.Query(reader, ro.GetBackend().MagneticTapeIO, ro.GetPipes(), ro.GetCrypto(), 0, 0, func(h *config.Header) {
				got = append(got, (h.Record*rs+h.Block)*512)
			})
			_ = ro.GetBackend().CloseReader()
			vsync.Quiesce()
			want := recStarts(c.scan)
			if qerr != nil {
				c.viol("C04", "C04|query-error|"+c.shape+"|"+NormErr(qerr), fmt.Sprintf("history: %s\nQuery(0,0) failed: %v", c.hist(), qerr))
			} else if fmt.Sprint(got) != fmt.Sprint(want) {
				c.viol("C04", "C04|query-positions|"+c.shape, fmt.Sprintf("history: %s\nQuery(0,0) reports positions %v, the block scanner finds records at %v", c.hist(), got, want))
			}
		}
	}
}

func recStarts(s rig.ScanResult) []int64 {
	out := []int64{}
	for _, r := range s.Recs {
		out = append(out, r.Off)
	}
	return out
}

// oracleC07: replaying the whole tape into an index that reflects a prefix (or all) of it converges.
func (c *stepCtx) oracleC07() {
	n := len(c.scan.Recs)
	if !c.scan.Complete {
		return
	}
	// reference: from-scratch rebuild
	ref, ierr, herr := Rebuild(c.env, c.st.Cfg, c.st.Drive)
	if herr != nil || ierr != nil {
		return // C01's business
	}
	refTree := rig.Walk(ref.AFS, "/")
	vsync.Quiesce()
	ref.Close()
	js := []int{0, n - 1, n}
	if c.job.AllJ {
		js = js[:0]
		for j := 0; j <= n; j++ {
			js = append(js, j)
		}
	}
	js = uniqInts(js)
	full := c.postTape
	roleOf := func(p string) string { return role(p, c.op) }
	kinds := recKinds(c.scan)
	for _, j := range js {
		if j < 0 {
			continue
		}
		var st *rig.Stack
		var err error
		jname := fmt.Sprint(j)
		if j == n {
			jname = "live"
			st, err = Reopen(c.env, c.st.Cfg, c.st)
			if err != nil {
				continue
			}
		} else {
			dir := c.env.TempDir()
			cut := int64(0)
			if j > 0 {
				cut = c.scan.Recs[j-1].End
			}
			if err := os.WriteFile(dir+"/drive.tar", full[:cut], 0o600); err != nil {
				continue
			}
			st, err = rig.NewStack(dir, c.st.Cfg, c.env.Keys)
			if err != nil {
				continue
			}
			if j > 0 {
				if err := IndexInto(st, true); err != nil {
					st.Close()
					continue // prefix rebuild failing is C01/C06's business
				}
			}
			if err := os.WriteFile(dir+"/drive.tar", full, 0o600); err != nil {
				st.Close()
				continue
			}
		}
		// what the remaining records are, for the class key
		rest := "none"
		if j < n {
			rest = strings.Join(uniqSorted(append([]string{}, kinds[j:]...)), "+")
		}
		done := strings.Join(uniqSorted(append([]string{}, kinds[:min(j, n)]...)), "+")
		_ = done
		e1 := IndexInto(st, false)
		vsync.Quiesce()
		if e1 != nil {
			c.viol("C07", fmt.Sprintf("C07|replay-error|pass=1|j=%s|tape-has=%s|%s", jclass(j, n), strings.Join(uniqSorted(append([]string{}, kinds...)), "+"), NormErr(e1)),
				fmt.Sprintf("history: %s\nindex of the first %s of %d records; replaying the whole tape into it failed: %v", c.hist(), jname, n, e1))
			st.Close()
			continue
		}
		_ = rest
		st.ComposeFromIndex()
		t1 := rig.Walk(st.AFS, "/")
		vsync.Quiesce()
		if shape, detail := diffTrees(t1, refTree, true, roleOf); len(shape) > 0 {
			c.viol("C07", fmt.Sprintf("C07|diverges-from-rebuild|j=%s|%s", jclass(j, n), strings.Join(shape, ",")),
				fmt.Sprintf("history: %s\nindex of the first %s of %d records + replay of the whole tape vs from-scratch rebuild:\n  %s", c.hist(), jname, n, strings.Join(detail, "\n  ")))
		}
		rows1, _ := rig.DumpIndex(st.Index)
		e2 := IndexInto(st, false)
		vsync.Quiesce()
		if e2 != nil {
			c.viol("C07", fmt.Sprintf("C07|replay-error|pass=2|j=%s|%s", jclass(j, n), NormErr(e2)), fmt.Sprintf("history: %s\nsecond replay failed: %v", c.hist(), e2))
			st.Close()
			continue
		}
		t2 := rig.Walk(st.AFS, "/")
		vsync.Quiesce()
		rows2, _ := rig.DumpIndex(st.Index)
		if shape, detail := diffTrees(t2, t1, true, roleOf); len(shape) > 0 {
			c.viol("C07", fmt.Sprintf("C07|second-pass-changes-tree|j=%s|%s", jclass(j, n), strings.Join(shape, ",")),
				fmt.Sprintf("history: %s\nsecond replay changed the tree:\n  %s", c.hist(), strings.Join(detail, "\n  ")))
		} else if fmt.Sprint(rows1) != fmt.Sprint(rows2) {
			c.viol("C07", fmt.Sprintf("C07|second-pass-changes-rows|j=%s", jclass(j, n)), fmt.Sprintf("history: %s\nsecond replay changed raw index rows:\n  %v\n  %v", c.hist(), rows1, rows2))
		}
		st.Close()
	}
}

func jclass(j, n int) string {
	switch {
	case j == n:
		return "live"
	case j == 0:
		return "0"
	default:
		return "prefix"
	}
}

func recKinds(s rig.ScanResult) []string {
	out := []string{}
	for _, r := range s.Recs {
		act := r.Pax["STFS.Action"]
		if act == "" {
			act = "CREATE"
		}
		if r.Pax["STFS.ReplacesName"] != "" {
			act = "MOVE"
		}
		out = append(out, act)
	}
	return out
}

// Marker is embedded in every name component, content and link target of the C09 alphabet. '~' is outside the base64
// alphabet, so the marker cannot occur by chance in the armoured wrapper.
const Marker = "MK~q7Zt~9fXw~2LpA~c0de"

func c09Needles() map[string][]byte {
	n := map[string][]byte{}
	add := func(name string, raw []byte) {
		n[name+"/raw"] = raw
		n[name+"/hex"] = []byte(hex.EncodeToString(raw))
		for shift := 0; shift < 3; shift++ {
			// base64 of the marker at each of the three alignments (drop the characters that depend on neighbours)
			padded := append(bytes.Repeat([]byte{'A'}, shift), raw...)
			enc := base64.StdEncoding.EncodeToString(padded)
			lo := (shift*8 + 5) / 6
			hi := len(enc) - 4
			if hi > lo+8 {
				n[fmt.Sprintf("%s/base64-%d", name, shift)] = []byte(enc[lo:hi])
			}
		}
	}
	add("marker", []byte(Marker))
	for _, lit := range []string{"STFS.Action", "STFS.ReplacesName", "STFS.ReplacesContent", "STFS.UncompressedSize", "STFS.Signature", "STFS.Version"} {
		n["literal/"+lit] = []byte(lit)
	}
	n["uid/decimal"] = []byte(fmt.Sprint(ops.ChownUID))
	n["gid/decimal"] = []byte(fmt.Sprint(ops.ChownGID))
	n["uid/octal"] = []byte(fmt.Sprintf("%o", ops.ChownUID))
	n["gid/octal"] = []byte(fmt.Sprintf("%o", ops.ChownGID))
	for nm, t := range map[string]time.Time{"atime": ops.T1, "mtime": ops.T2} {
		n[nm+"/unix"] = []byte(fmt.Sprint(t.Unix()))
		n[nm+"/octal"] = []byte(fmt.Sprintf("%o", t.Unix()))
		n[nm+"/rfc3339"] = []byte(t.Format("2006-01-02T15:04:05"))
	}
	return n
}

var needles = c09Needles()

// oracleC09: with encryption on, the tape reveals nothing but record sizes and the fixed wrapper.
func (c *stepCtx) oracleC09() {
	if c.st.Cfg.Encryption == "" {
		return
	}
	T := c.postTape
	names := make([]string, 0, len(needles))
	for k := range needles {
		names = append(names, k)
	}
	sort.Strings(names)
	for _, k := range names {
		if i := bytes.Index(T, needles[k]); i >= 0 {
			where := "trailer"
			for _, r := range c.scan.Recs {
				if int64(i) >= r.Off && int64(i) < r.End {
					where = cutPart(r, int64(i))
				}
			}
			c.viol("C09", fmt.Sprintf("C09|cleartext|%s|in=%s|after=%s", k, where, c.op.K), fmt.Sprintf("history: %s\nthe raw tape contains %q (%s) at byte %d (%s)", c.hist(), needles[k], k, i, where))
		}
	}
	// the outer tar headers carry nothing but the size and the fixed wrapper key
	for i, r := range c.scan.Recs {
		h := T[r.HdrOff : r.HdrOff+512]
		fields := map[string][]byte{"mode": h[100:108], "uid": h[108:116], "gid": h[116:124], "mtime": h[136:148]}
		if nm := strings.TrimRight(string(h[0:100]), "\x00"); nm != "" {
			c.viol("C09", "C09|outer-header|name", fmt.Sprintf("history: %s\nrecord %d: the outer header has the name %q", c.hist(), i, nm))
		}
		if ln := strings.TrimRight(string(h[157:257]), "\x00"); ln != "" {
			c.viol("C09", "C09|outer-header|linkname", fmt.Sprintf("history: %s\nrecord %d: the outer header has the link name %q", c.hist(), i, ln))
		}
		for fname, f := range fields {
			if octalField(f) != 0 {
				c.viol("C09", "C09|outer-header|"+fname, fmt.Sprintf("history: %s\nrecord %d: the outer header field %s is %q", c.hist(), i, fname, f))
			}
		}
		for k := range r.Pax {
			if k != "STFS.EmbeddedHeader" && k != "size" {
				c.viol("C09", "C09|outer-header|pax-key="+k, fmt.Sprintf("history: %s\nrecord %d: the outer header carries the PAX record %s=%q", c.hist(), i, k, r.Pax[k]))
			}
		}
		if un := strings.TrimRight(string(h[265:297]), "\x00"); un != "" {
			c.viol("C09", "C09|outer-header|uname", fmt.Sprintf("history: %s\nrecord %d: the outer header has the user name %q", c.hist(), i, un))
		}
	}
	// neither a rebuild nor a restore succeeds with a different private key
	cfg2 := c.st.Cfg
	cfg2.KeySet = 1
	dir := c.env.TempDir()
	if err := CopyFile(c.st.Drive, dir+"/drive.tar"); err != nil {
		return
	}
	other, err := rig.NewStack(dir, cfg2, c.env.Keys)
	if err != nil {
		return
	}
	defer other.Close()
	ierr := IndexInto(other, true)
	vsync.Quiesce()
	rows, _ := rig.DumpIndex(other.Index)
	if ierr == nil && len(rows) > 0 {
		c.viol("C09", "C09|rebuild-with-other-key-succeeds", fmt.Sprintf("history: %s\nrebuilding the index with an unrelated private key returned no error and produced %d rows", c.hist(), len(rows)))
	}
	for _, row := range c.liveRows {
		if row.Deleted == 1 {
			continue
		}
		data, _, ferr := fetchAt(other, row.Record, row.Block)
		vsync.Quiesce()
		if ferr == nil {
			c.viol("C09", "C09|restore-with-other-key-succeeds|typeflag="+fmt.Sprint(row.Typeflag), fmt.Sprintf("history: %s\nfetching %s at (%d,%d) with an unrelated private key succeeded (%d bytes)", c.hist(), row.Name, row.Record, row.Block, len(data)))
		}
	}
}

func octalField(b []byte) int64 {
	var v int64
	for _, ch := range b {
		if ch >= '0' && ch <= '7' {
			v = v*8 + int64(ch-'0')
		}
	}
	return v
}

// oracleC12: recursive remove / rename touch exactly the named subtree (live tree and rebuilt tree vs reference).
func (c *stepCtx) oracleC12() {
	if c.op.K != "removeall" && c.op.K != "remove" && c.op.K != "rename" {
		return
	}
	roleOf := func(p string) string { return role(p, c.op) }
	like := func(detail []string) string {
		// does any collateral entry match the SQL LIKE pattern of the named directory without being inside it?
		P := model.Clean(c.op.P)
		for _, d := range detail {
			p := d[:strings.Index(d, ":")]
			if !strings.HasPrefix(p, P+"/") && p != P && likeMatch(P+"/%", p) {
				return "like-match=true"
			}
		}
		return "like-match=false"
	}
	implOK, modelOK := c.err == nil, c.reason == ""
	if implOK != modelOK {
		mv := "ok"
		if !modelOK {
			mv = "fail:" + c.reason
		}
		c.viol("C12", fmt.Sprintf("C12|outcome|%s|model=%s|impl=%s", c.shape, mv, errClass(c.err)),
			fmt.Sprintf("history: %s\nthe reference says %s, the implementation returned %v", c.hist(), mv, c.err))
	}
	if shape, detail := diffTrees(c.postTree, modelTree(c.m), false, roleOf); len(shape) > 0 {
		c.viol("C12", fmt.Sprintf("C12|state|%s|%s|%s", c.shape, strings.Join(shape, ","), like(detail)),
			fmt.Sprintf("history: %s\nimplementation returned %v, reference %q\ndifferences (implementation vs reference):\n  %s", c.hist(), c.err, c.reason, strings.Join(detail, "\n  ")))
		return
	}
	// what the call removed or moved away must be gone for lookups too, not only for listings from the root
	inModel := map[string]bool{}
	for _, e := range modelTree(c.m) {
		inModel[e.Path] = true
	}
	for _, e := range c.preTree {
		if inModel[e.Path] {
			continue
		}
		if _, err := c.st.AFS.Stat(e.Path); err == nil {
			c.viol("C12", fmt.Sprintf("C12|removed-entry-still-found|%s", c.shape),
				fmt.Sprintf("history: %s\nimplementation returned %v; %s is gone according to the reference and is no longer listed, but Stat still finds it", c.hist(), c.err, e.Path))
			break
		}
	}
	if c.rebuilt != nil {
		t := rig.Walk(c.rebuilt.AFS, "/")
		vsync.Quiesce()
		if shape, detail := diffTrees(t, modelTree(c.m), false, roleOf); len(shape) > 0 {
			c.viol("C12", fmt.Sprintf("C12|rebuilt-state|%s|%s|%s", c.shape, strings.Join(shape, ","), like(detail)),
				fmt.Sprintf("history: %s\nrebuilt-from-tape tree vs reference:\n  %s", c.hist(), strings.Join(detail, "\n  ")))
		}
	}
}

// likeMatch implements SQL LIKE with % and _ (case-insensitive for ASCII, like SQLite's default).
func likeMatch(pat, s string) bool {
	pr, sr := []rune(strings.ToLower(pat)), []rune(strings.ToLower(s))
	var rec func(i, j int) bool
	rec = func(i, j int) bool {
		for i < len(pr) {
			switch pr[i] {
			case '%':
				for k := j; k <= len(sr); k++ {
					if rec(i+1, k) {
						return true
					}
				}
				return false
			case '_':
				if j >= len(sr) {
					return false
				}
			default:
				if j >= len(sr) || sr[j] != pr[i] {
					return false
				}
			}
			i++
			j++
		}
		return j == len(sr)
	}
	return rec(0, 0)
}

func min(a, b int) int {
	if a < b {
		return a
	}
	return b
}
