// Package engines holds the worker-side execution of jobs and the controller-side enumeration.
package engines

import (
	"fmt"
	"io"
	"os"
	"path/filepath"
	"runtime/debug"
	"sort"
	"strings"

	"github.com/pojntfx/stfs/pkg/zzverif/vsync"
	"stfsmc/rig"
)

// Violation is one oracle failure.
type Violation struct {
	Prop   string `json:"prop"`
	Class  string `json:"class"`
	Detail string `json:"detail"`
	Cut    *int64 `json:"cut,omitempty"`   // E2: the crash point that produced it (for a minimal replay job)
	Mut    *Mut   `json:"mut,omitempty"`   // C08: the alteration that produced it
	Sched  []int  `json:"sched,omitempty"` // C11: the schedule (choice list) that produced it
}

// Hang describes a deadlock (or livelock) found by the scheduler.
type Hang struct {
	Phase    string         `json:"phase"`
	Waiters  []vsync.Waiter `json:"waiters"`
	Livelock bool           `json:"livelock,omitempty"`
}

func (h *Hang) Key() string {
	if h == nil {
		return ""
	}
	// the key names what each waiter waits FOR (lock, pipe-read, pipe-write-wait ...), not the function it waits in, so that
	// renaming or moving code does not turn a known deadlock into a new class; the functions are in the detail text
	ws := []string{}
	for _, w := range h.Waiters {
		if w.Kind == "quiesce" {
			continue
		}
		ws = append(ws, w.Kind)
	}
	sort.Strings(ws)
	k := strings.Join(ws, ",")
	if h.Livelock {
		k = "livelock:" + k
	}
	return k
}

// ExecInfo is what a managed execution reports besides the job's own result.
type ExecInfo struct {
	Hang        *Hang    `json:"hang,omitempty"`
	Crashes     []string `json:"crashes,omitempty"`      // panics on background goroutines ("process would have crashed")
	ClientPanic string   `json:"client_panic,omitempty"` // panic on the client thread outside a guarded call
	Steps       int      `json:"steps"`
}

// Env is the per-worker environment.
type Env struct {
	Keys    *rig.Keys
	Scratch string
	seq     int
	Leaks   int
}

func (e *Env) TempDir() string {
	e.seq++
	d := filepath.Join(e.Scratch, fmt.Sprintf("x%d", e.seq))
	_ = os.RemoveAll(d)
	_ = os.MkdirAll(d, 0o755)
	return d
}

// Phase is set by job bodies so that a hang can be attributed.
type Phase struct{ Name string }

// RunManaged runs body on a client thread under the sequential default schedule.
func RunManaged(ph *Phase, body func()) ExecInfo {
	s := vsync.NewSched()
	return RunSched(s, ph, func() { s.Spawn("client", body) })
}

// RunSched installs s, lets setup spawn the client threads, runs to completion and collects the verdicts.
func RunSched(s *vsync.Sched, ph *Phase, setup func()) ExecInfo {
	vsync.Install(s)
	defer vsync.Install(nil)
	setup()
	ok := s.Run()
	info := ExecInfo{Steps: s.Steps, Crashes: s.Crashes}
	if !ok {
		info.Hang = &Hang{Phase: ph.Name, Waiters: s.Deadlock, Livelock: s.Livelock}
	}
	for _, t := range s.Threads() {
		if t.Client && t.Panic != nil {
			info.ClientPanic = fmt.Sprintf("%v\n%s", t.Panic, t.PanicStack)
		}
	}
	return info
}

// Guard runs one implementation call and converts a panic into an error-like record.
func Guard(f func() error) (err error, panicked string) {
	defer func() {
		if r := recover(); r != nil {
			// the abort sentinel of the scheduler must keep unwinding
			if vsync.IsAbort(r) {
				panic(r)
			}
			panicked = fmt.Sprintf("%v", r)
			st := string(debug.Stack())
			if i := strings.Index(st, "panic("); i >= 0 {
				st = st[i:]
			}
			if len(st) > 1500 {
				st = st[:1500]
			}
			panicked += "\n" + st
		}
	}()
	return f(), ""
}

func CopyFile(src, dst string) error {
	in, err := os.Open(src)
	if err != nil {
		return err
	}
	defer in.Close()
	out, err := os.Create(dst)
	if err != nil {
		return err
	}
	if _, err := io.Copy(out, in); err != nil {
		out.Close()
		return err
	}
	return out.Close()
}

func errClass(err error) string {
	if err == nil {
		return "ok"
	}
	return "err"
}

// NormErr strips volatile parts (paths, numbers) from an error message for use in class keys.
func NormErr(err error) string {
	if err == nil {
		return ""
	}
	s := err.Error()
	out := make([]rune, 0, len(s))
	for _, r := range s {
		switch {
		case r >= '0' && r <= '9':
			if len(out) > 0 && out[len(out)-1] == '#' {
				continue
			}
			out = append(out, '#')
		default:
			out = append(out, r)
		}
	}
	s = string(out)
	if i := strings.Index(s, "/dev/shm"); i >= 0 {
		j := strings.IndexAny(s[i:], " :")
		if j < 0 {
			s = s[:i] + "<path>"
		} else {
			s = s[:i] + "<path>" + s[i+j:]
		}
	}
	if len(s) > 120 {
		s = s[:120]
	}
	return s
}
