package engines

import (
	"github.com/pojntfx/stfs/pkg/zzverif/vsync"

	"encoding/json"
	"fmt"
	"os"
)

// Dispatch executes one job in the worker.
func Dispatch(env *Env, kind string, payload json.RawMessage) (interface{}, error) {
	vsync.ResetClock()
	switch kind {
	case "e1":
		var j E1Job
		if err := json.Unmarshal(payload, &j); err != nil {
			return nil, err
		}
		return RunE1(env, &j), nil
	case "e2":
		var j E2Job
		if err := json.Unmarshal(payload, &j); err != nil {
			return nil, err
		}
		return RunE2(env, &j), nil
	case "c03":
		var j C03Job
		if err := json.Unmarshal(payload, &j); err != nil {
			return nil, err
		}
		return RunC03(env, &j), nil
	case "c18":
		var j C18Job
		if err := json.Unmarshal(payload, &j); err != nil {
			return nil, err
		}
		return RunC18(env, &j), nil
	case "c08":
		var j C08Job
		if err := json.Unmarshal(payload, &j); err != nil {
			return nil, err
		}
		return RunC08(env, &j), nil
	case "c11":
		var j C11Job
		if err := json.Unmarshal(payload, &j); err != nil {
			return nil, err
		}
		return RunC11(env, &j), nil
	case "e3":
		var j E3Job
		if err := json.Unmarshal(payload, &j); err != nil {
			return nil, err
		}
		return RunE3(env, &j), nil
	}
	return nil, fmt.Errorf("unknown job kind %q", kind)
}

// CleanScratch removes everything a job left in the worker's scratch directory.
func (e *Env) CleanScratch() {
	ents, _ := os.ReadDir(e.Scratch)
	for _, d := range ents {
		_ = os.RemoveAll(e.Scratch + "/" + d.Name())
	}
}
