package engines

import (
	"bytes"
	"fmt"
	"os"
	"sort"
	"strings"

	"github.com/pojntfx/stfs/pkg/zzverif/vsync"
	"stfsmc/model"
	"stfsmc/ops"
	"stfsmc/rig"
)

// E2Job: build the tape of Hist, then judge every cut in Cuts (C06: rebuild; C16: Initialize over it).
type E2Job struct {
	Prop    string     `json:"prop"` // C06 | C16 | "tape" (only report the tape's shape)
	Cfg     rig.Config `json:"cfg"`
	Level   string     `json:"level,omitempty"`
	Hist    []ops.Op   `json:"hist"`
	Cuts    []int64    `json:"cuts,omitempty"`
	Policy  string     `json:"policy,omitempty"` // quick | all : the worker derives the cuts itself and takes shard Shard of NShards
	Shard   int        `json:"shard,omitempty"`
	NShards int        `json:"nshards,omitempty"`
	Index   string     `json:"index,omitempty"` // C16: absent | current | stale
}

type E2Res struct {
	TapeLen  int64       `json:"tape_len"`
	RecOffs  []int64     `json:"rec_offs"`
	RecEnds  []int64     `json:"rec_ends"`
	Writes   []int64     `json:"writes"` // end offsets of the individual writes issued to the drive
	Shape    string      `json:"shape"`
	Evals    int         `json:"evals"`
	Distinct []string    `json:"distinct,omitempty"`
	Viol     []Violation `json:"viol,omitempty"`
	Info     ExecInfo    `json:"info"`
	Harness  string      `json:"harness,omitempty"`
}

func recName(r rig.Rec) string {
	n := r.Name
	if v, ok := r.Pax["path"]; ok {
		n = v
	}
	return rig.NormName(n)
}

func recAction(r rig.Rec) string {
	act := r.Pax["STFS.Action"]
	if act == "" {
		act = "CREATE"
	}
	if r.Pax["STFS.ReplacesName"] != "" {
		act = "MOVE"
	}
	if act == "UPDATE" && r.Pax["STFS.ReplacesContent"] == "true" {
		act = "UPDATE+CONTENT"
	}
	return act
}

// where the cut falls inside the torn record
func cutPart(r rig.Rec, c int64) string {
	switch {
	case c < r.HdrOff:
		return "pax-header"
	case c < r.DataOff:
		return "header"
	case c < r.DataOff+r.Size:
		return "payload"
	default:
		return "padding"
	}
}

// callState: what the running instance showed when a call of the history had returned, and how long the tape was then.
type callState struct {
	call    string
	tapeLen int64
	tree    []rig.Entry
}

func buildTape(env *Env, job *E2Job) (st *rig.Stack, m *model.FS, states []callState, err error) {
	st, err = rig.NewStack(env.TempDir(), job.Cfg, env.Keys)
	if err != nil {
		return nil, nil, nil, err
	}
	if err := st.Init(); err != nil {
		return nil, nil, nil, fmt.Errorf("Initialize: %w", err)
	}
	m = model.New(os.Getuid(), os.Getgid(), 0o777)
	snap := func(call string) {
		// only when no handle is open: a walk reads every file, and reading next to a partly used handle is D11's subject
		if len(st.Handles) > 0 || job.Prop != "C06" {
			return
		}
		fi, err := os.Stat(st.Drive)
		if err != nil {
			return
		}
		var tree []rig.Entry
		if _, pan := Guard(func() error { tree = rig.Walk(st.AFS, "/"); return nil }); pan != "" {
			return
		}
		vsync.Quiesce()
		states = append(states, callState{call: call, tapeLen: fi.Size(), tree: tree})
	}
	snap("Initialize")
	for _, o := range job.Hist {
		_, _ = Guard(func() error { return ops.ExecImpl(st, o) })
		vsync.Quiesce()
		if job.Level != "raw" && !strings.HasPrefix(o.K, "h") {
			ops.ExecModel(m, o)
		}
		snap(o.String())
	}
	return st, m, states, nil
}

type rebuilt struct {
	tree []rig.Entry
	err  error
	byP  map[string]rig.Entry
}

func rebuildBytes(env *Env, cfg rig.Config, img []byte, budget bool) (*rebuilt, *rig.Stack, string) {
	dir := env.TempDir()
	if err := os.WriteFile(dir+"/drive.tar", img, 0o600); err != nil {
		return nil, nil, err.Error()
	}
	st, err := rig.NewStack(dir, cfg, env.Keys)
	if err != nil {
		return nil, nil, err.Error()
	}
	if budget {
		st.ReadBudget = 64*(len(img)/512+1) + 4096
	}
	rb := &rebuilt{byP: map[string]rig.Entry{}}
	var pan string
	_, pan = Guard(func() error { rb.err = IndexInto(st, true); return nil })
	vsync.Quiesce()
	if pan != "" {
		return nil, st, "panic: " + pan
	}
	if st.BudgetExceeded {
		return nil, st, "budget"
	}
	st.ReadBudget = 0
	rb.tree = rig.Walk(st.FS, "/")
	vsync.Quiesce()
	for _, e := range rb.tree {
		rb.byP[e.Path] = e
	}
	return rb, st, ""
}

func RunE2(env *Env, job *E2Job) *E2Res {
	res := &E2Res{}
	ph := &Phase{Name: "build"}
	var curCut *int64
	viol := func(class, detail string) {
		res.Viol = append(res.Viol, Violation{Prop: job.Prop, Class: class, Detail: detail, Cut: curCut})
	}
	distinct := map[string]bool{}
	info := RunManaged(ph, func() {
		st, _, states, err := buildTape(env, job)
		if err != nil {
			res.Harness = err.Error()
			return
		}
		T := readTape(st)
		writes := []int64{}
		for _, w := range st.WriteLog {
			writes = append(writes, w.Off+int64(w.N))
		}
		liveIndex := st.Index
		for _, h := range st.Handles {
			_, _ = Guard(func() error { return h.F.Close() })
		}
		st.Close()
		scan := rig.Scan(T)
		res.TapeLen = int64(len(T))
		res.Writes = writes
		shape := []string{}
		for _, r := range scan.Recs {
			res.RecOffs = append(res.RecOffs, r.Off)
			res.RecEnds = append(res.RecEnds, r.End)
			shape = append(shape, fmt.Sprintf("%s:%d+%d", recAction(r), (r.DataOff-r.Off)/512, (r.Size+511)/512))
		}
		res.Shape = strings.Join(shape, ",")
		if !scan.Complete {
			res.Harness = "the intact tape does not scan: " + scan.StopWhy
			return
		}
		if job.Prop == "tape" {
			return
		}
		if job.Policy != "" {
			all := cutSet(job.Policy, int64(len(T)), scan, writes)
			job.Cuts = nil
			for i, c := range all {
				if job.NShards <= 1 || i%job.NShards == job.Shard {
					job.Cuts = append(job.Cuts, c)
				}
			}
		}
		hist := ops.HistString(job.Hist)
		// clean-cut references, memoised per k
		refs := map[int]*rebuilt{}
		ref := func(k int) *rebuilt {
			if r, ok := refs[k]; ok {
				return r
			}
			end := int64(0)
			if k > 0 {
				end = scan.Recs[k-1].End
			}
			r, s, why := rebuildBytes(env, job.Cfg, T[:end], false)
			if s != nil {
				s.Close()
			}
			if why != "" {
				r = nil
			}
			refs[k] = r
			return r
		}
		for _, c := range job.Cuts {
			if c < 0 || c > int64(len(T)) {
				continue
			}
			k := 0
			for k < len(scan.Recs) && scan.Recs[k].End <= c {
				k++
			}
			var torn *rig.Rec
			if k < len(scan.Recs) && scan.Recs[k].Off < c {
				torn = &scan.Recs[k]
			}
			tornDesc := "between-records"
			tornNames := map[string]bool{}
			if torn != nil {
				tornDesc = recAction(*torn) + "/" + cutPart(*torn, c)
				tornNames[recName(*torn)] = true
				if v := torn.Pax["STFS.ReplacesName"]; v != "" {
					tornNames[rig.NormName(v)] = true
				}
			}
			if c%512 != 0 {
				tornDesc += "/unaligned"
			}
			ph.Name = fmt.Sprintf("cut %d", c)
			cc := c
			curCut = &cc
			res.Evals++
			distinct[res.Shape+"|"+tornDesc] = true
			if job.Prop == "C06" {
				rk := ref(k)
				if rk == nil {
					continue // the clean prefix itself does not rebuild: C01's business
				}
				got, s, why := rebuildBytes(env, job.Cfg, T[:c], true)
				if s != nil {
					s.Close()
				}
				where := fmt.Sprintf("history: %s\ntape of %d bytes cut at byte %d (%d complete records; torn: %s)", hist, len(T), c, k, tornDesc)
				if why == "budget" {
					viol("C06|no-progress|torn="+tornDesc, where+"\nthe indexer exceeded the drive-reader step budget (it does not make progress)")
					continue
				}
				if why != "" {
					viol("C06|crash|torn="+tornDesc+"|"+NormErr(fmt.Errorf("%s", strings.SplitN(why, "\n", 2)[0])), where+"\n"+why)
					continue
				}
				var next *rebuilt
				if torn != nil {
					next = ref(k + 1)
				}
				roleOf := func(p string) string {
					if tornNames[p] {
						return "torn"
					}
					return "other"
				}
				shape, detail := diffTrees(got.tree, rk.tree, true, roleOf)
				bad, badDetail := []string{}, []string{}
				for i, sdesc := range shape {
					_ = i
					if strings.HasPrefix(sdesc, "torn:") {
						continue
					}
					bad = append(bad, sdesc)
				}
				for _, d := range detail {
					p := d[:strings.Index(d, ":")]
					if !tornNames[p] {
						badDetail = append(badDetail, d)
					}
				}
				if len(bad) > 0 {
					viol(fmt.Sprintf("C06|collateral|torn=%s|%s", tornDesc, strings.Join(bad, ",")), where+"\nentries other than the torn one differ from the state after the last complete record:\n  "+strings.Join(badDetail, "\n  "))
				}
				// a cut at the point the tape had reached when a call returned tears nothing: the rebuild must show what the
				// running instance showed at that moment (entries, attributes, contents)
				if torn == nil {
					for i := len(states) - 1; i >= 0; i-- {
						if states[i].tapeLen != c {
							continue
						}
						if shape, detail := diffTrees(got.tree, states[i].tree, true, func(string) string { return "entry" }); len(shape) > 0 {
							sort.Strings(shape)
							viol(fmt.Sprintf("C06|complete-prefix-differs-from-the-state-when-the-call-returned|%s", strings.Join(uniqStrings(shape), ",")), where+fmt.Sprintf("\nthe tape had exactly this length when %q returned; rebuilt from it vs what the running instance showed then:\n  %s", states[i].call, strings.Join(detail, "\n  ")))
						}
						break
					}
				}
				// the torn entry: an error, or exactly the old or the completely written content - never other bytes
				for p := range tornNames {
					e, ok := got.byP[p]
					if !ok || e.Kind != "f" || e.Err != "" {
						continue
					}
					okData := false
					if o, ok := rk.byP[p]; ok && o.Kind == "f" && o.Data == e.Data {
						okData = true
					}
					if next != nil {
						if o, ok := next.byP[p]; ok && o.Kind == "f" && o.Data == e.Data {
							okData = true
						}
					}
					if !okData {
						viol(fmt.Sprintf("C06|wrong-data-for-torn-entry|torn=%s", tornDesc), where+fmt.Sprintf("\nreading the torn entry %s returned %s without error; before the torn record it held %v", p, e.Data, rk.byP[p].Data))
					}
				}
			} else if job.Prop == "C16" {
				c16(env, job, T, scan, c, k, tornDesc, liveIndex, ref, viol, hist)
			}
		}
	})
	res.Info = info
	if info.Hang != nil {
		pk := phaseKind(info.Hang.Phase)
		if pk == "build" {
			res.Harness = "" // a hang while building the tape is another property's subject; nothing to judge
		} else {
			viol(fmt.Sprintf("%s|hang|%s", job.Prop, info.Hang.Key()), fmt.Sprintf("history: %s\ndeadlock in phase %q; waiters: %+v", ops.HistString(job.Hist), info.Hang.Phase, info.Hang.Waiters))
		}
	}
	for _, c := range info.Crashes {
		viol(fmt.Sprintf("%s|bg-panic|%s", job.Prop, NormErr(fmt.Errorf("%s", c))), fmt.Sprintf("history: %s\nbackground goroutine panicked: %s", ops.HistString(job.Hist), c))
	}
	if info.ClientPanic != "" && res.Harness == "" {
		res.Harness = "client thread panicked outside a guarded call: " + info.ClientPanic
	}
	for d := range distinct {
		res.Distinct = append(res.Distinct, d)
	}
	sort.Strings(res.Distinct)
	return res
}

// c16: construct + Initialize a file system over T[:c] with the given index variant.
func c16(env *Env, job *E2Job, T []byte, scan rig.ScanResult, c int64, k int, tornDesc string, liveIndex string, ref func(int) *rebuilt, viol func(string, string), hist string) {
	img := T[:c]
	dir := env.TempDir()
	if err := os.WriteFile(dir+"/drive.tar", img, 0o600); err != nil {
		return
	}
	variant := job.Index
	switch variant {
	case "absent":
	case "current":
		// the index that reflects exactly the complete records of the image
		if c == int64(len(T)) {
			if err := CopyFile(liveIndex, dir+"/index.sqlite"); err != nil {
				return
			}
		} else if !prefixIndex(env, job.Cfg, T, scan, k, dir+"/index.sqlite") {
			return
		}
	case "stale":
		j := k - 1
		if j < 1 {
			return
		}
		if !prefixIndex(env, job.Cfg, T, scan, j, dir+"/index.sqlite") {
			return
		}
	}
	where := fmt.Sprintf("history: %s\ntape of %d bytes cut at byte %d (%d complete records; torn: %s); index %s", hist, len(T), c, k, tornDesc, variant)
	tailClass := "clean"
	switch {
	case strings.HasPrefix(tornDesc, "between-records") && c%512 != 0:
		tailClass = "unaligned"
	case !strings.HasPrefix(tornDesc, "between-records") && c%512 != 0:
		tailClass = "torn+unaligned"
	case !strings.HasPrefix(tornDesc, "between-records"):
		tailClass = "torn"
	}
	cls := fmt.Sprintf("index=%s|tail=%s", variant, tailClass)
	// cause-level class for everything that goes wrong AFTER Initialize accepted the tape: a stale index that is taken as
	// is (D18), or a tail that is torn / off the block grid (D13). Only a clean tail with an absent or current index gets
	// the precise class (where the unchanged code is right, any failure is new).
	afterOpen := func(verdict, extra string) string {
		switch {
		case variant == "stale":
			return "C16|after-open|cause=stale-index-accepted"
		case tailClass != "clean":
			return "C16|after-open|cause=damaged-tail|index=" + variant
		}
		if extra != "" {
			extra = "|" + extra
		}
		return fmt.Sprintf("C16|%s|%s%s", verdict, cls, extra)
	}
	// what does a from-scratch rebuild of these bytes show?
	rb, s0, why := rebuildBytes(env, job.Cfg, img, true)
	if s0 != nil {
		s0.Close()
	}
	rebuildOK := why == "" && rb != nil && rb.err == nil
	hasRoot := why == "" && rb != nil && len(rb.tree) > 0 && rb.tree[0].Err == ""
	// the follow-up write issued FIRST, before anything reads file contents (a read re-acquires and releases the drive and
	// would mask a drive that Initialize left locked): separate instance over copies, clean tails only
	if tailClass == "clean" && variant != "stale" {
		d2 := env.TempDir()
		_ = CopyFile(dir+"/drive.tar", d2+"/drive.tar")
		if variant != "absent" {
			_ = CopyFile(dir+"/index.sqlite", d2+"/index.sqlite")
		}
		if s2, err := rig.NewStack(d2, job.Cfg, env.Keys); err == nil {
			var e2 error
			_, pan := Guard(func() error { e2 = s2.Init(); return nil })
			vsync.Quiesce()
			if pan == "" && e2 == nil {
				var werr error
				_, pan = Guard(func() error { werr = ops.ExecImpl(s2, ops.Op{K: "put", P: "/zz", C: "new"}); return nil })
				vsync.Quiesce()
				if pan != "" {
					viol("C16|panic-in-first-write|"+cls, where+"\n"+pan)
				} else if werr != nil {
					viol(fmt.Sprintf("C16|first-write-fails|%s|%s", cls, NormErr(werr)), where+"\nthe first call after a successful Initialize (Create /zz) failed: "+werr.Error())
				} else {
					b, rerr := rig.ReadFile(s2.FS, "/zz")
					vsync.Quiesce()
					if rerr != nil || string(b) != "new" {
						viol(fmt.Sprintf("C16|first-write-not-retrievable|%s", cls), where+fmt.Sprintf("\n/zz written right after Initialize reads back %q, %v", b, rerr))
					}
				}
			}
			s2.Close()
		}
	}
	st, err := rig.NewStack(dir, job.Cfg, env.Keys)
	if err != nil {
		return
	}
	defer st.Close()
	var ierr error
	st.ReadBudget = 64*(len(img)/512+1) + 8192
	_, pan := Guard(func() error { ierr = st.Init(); return nil })
	vsync.Quiesce()
	if st.BudgetExceeded {
		viol("C16|no-progress-in-initialize|"+cls, where+"\nInitialize exceeded the drive-reader step budget (the indexer does not make progress)")
		return
	}
	st.ReadBudget = 0
	if pan != "" {
		viol("C16|panic-in-initialize|"+cls, where+"\n"+pan)
		return
	}
	after := readTape(st)
	if len(after) < len(img) || !bytes.Equal(after[:len(img)], img) {
		viol("C16|tape-rewritten|"+cls, where+fmt.Sprintf("\nthe tape before Initialize (%d bytes) is not a prefix of the tape after it (%d bytes)", len(img), len(after)))
		return
	}
	if hasRoot && len(after) != len(img) {
		viol(fmt.Sprintf("C16|appended-although-root-exists|%s|rebuild-ok=%v|init=%s", cls, rebuildOK, errClass(ierr)), where+fmt.Sprintf("\na rebuild of the tape shows a root directory, yet Initialize appended %d bytes (Initialize returned %v)", len(after)-len(img), ierr))
	}
	if ierr != nil {
		return
	}
	// faithful: shows exactly what a from-scratch rebuild of the (possibly extended) tape shows
	got := rig.Walk(st.FS, "/")
	vsync.Quiesce()
	rb2, s2, why2 := rebuildBytes(env, job.Cfg, after, true)
	if s2 != nil {
		s2.Close()
	}
	if why2 == "" && rb2 != nil {
		if shape, detail := diffTrees(got, rb2.tree, true, func(string) string { return "entry" }); len(shape) > 0 {
			viol(afterOpen("not-faithful", ""), where+"\nInitialize succeeded, but the file system differs from a from-scratch rebuild of the same tape:\n  "+strings.Join(detail, "\n  "))
			return
		}
	}
	// entries written afterwards are retrievable and survive a rebuild
	var werr error
	_, pan = Guard(func() error { werr = ops.ExecImpl(st, ops.Op{K: "put", P: "/zz", C: "new"}); return nil })
	vsync.Quiesce()
	if pan != "" {
		viol("C16|panic-in-followup|"+cls, where+"\n"+pan)
		return
	}
	if werr != nil {
		viol(afterOpen("followup-write-fails", NormErr(werr)), where+"\nwriting /zz after a successful Initialize failed: "+werr.Error())
		return
	}
	b, rerr := rig.ReadFile(st.FS, "/zz")
	vsync.Quiesce()
	if rerr != nil || string(b) != "new" {
		viol(afterOpen("followup-not-retrievable", ""), where+fmt.Sprintf("\n/zz written after Initialize reads back %q, %v", b, rerr))
		return
	}
	rb3, s3, why3 := rebuildBytes(env, job.Cfg, readTape(st), true)
	if s3 != nil {
		s3.Close()
	}
	if why3 != "" || rb3 == nil {
		viol(afterOpen("followup-rebuild-"+strings.SplitN(why3, ":", 2)[0], ""), where+"\nrebuilding after the follow-up write: "+why3)
		return
	}
	if e, ok := rb3.byP["/zz"]; !ok || e.Data != rig.DataKey([]byte("new")) || e.Err != "" {
		viol(afterOpen("followup-lost-on-rebuild", fmt.Sprintf("rebuild-err=%v", rb3.err != nil)), where+fmt.Sprintf("\n/zz written after Initialize is not retrievable after a rebuild (rebuild error: %v; entry: %+v)", rb3.err, e))
	}
}

// prefixIndex writes the index of the first j complete records to dst.
func prefixIndex(env *Env, cfg rig.Config, T []byte, scan rig.ScanResult, j int, dst string) bool {
	end := int64(0)
	if j > 0 {
		end = scan.Recs[j-1].End
	}
	dir := env.TempDir()
	if err := os.WriteFile(dir+"/drive.tar", T[:end], 0o600); err != nil {
		return false
	}
	st, err := rig.NewStack(dir, cfg, env.Keys)
	if err != nil {
		return false
	}
	ierr := IndexInto(st, true)
	vsync.Quiesce()
	st.Close()
	if ierr != nil {
		return false
	}
	return CopyFile(st.Index, dst) == nil
}

// cutSet enumerates crash points. "all": every prefix length. "quick": every 512-byte boundary, every boundary
// between two writes issued to the drive +-1 byte, and every 7th byte inside the last two records.
func cutSet(policy string, n int64, scan rig.ScanResult, writes []int64) []int64 {
	set := map[int64]bool{}
	if policy == "all" {
		for c := int64(0); c <= n; c++ {
			set[c] = true
		}
	} else {
		for c := int64(0); c <= n; c += 512 {
			set[c] = true
		}
		for _, w := range writes {
			for _, d := range []int64{-1, 0, 1} {
				if w+d >= 0 && w+d <= n {
					set[w+d] = true
				}
			}
		}
		if l := len(scan.Recs); l > 0 {
			from := scan.Recs[l-1].Off
			if l > 1 {
				from = scan.Recs[l-2].Off
			}
			for c := from; c <= n; c += 7 {
				set[c] = true
			}
		}
		set[n] = true
	}
	out := make([]int64, 0, len(set))
	for c := range set {
		out = append(out, c)
	}
	sort.Slice(out, func(i, j int) bool { return out[i] < out[j] })
	return out
}

func uniqStrings(in []string) []string {
	out := []string{}
	seen := map[string]bool{}
	for _, s := range in {
		if !seen[s] {
			seen[s] = true
			out = append(out, s)
		}
	}
	return out
}
