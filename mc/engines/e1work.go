package engines

import (
	"archive/tar"
	"bytes"
	"context"
	"crypto/sha256"
	"encoding/hex"
	"fmt"
	"os"
	"path"
	"sort"
	"strings"

	"github.com/pojntfx/stfs/pkg/encryption"
	"github.com/pojntfx/stfs/pkg/recovery"
	"github.com/pojntfx/stfs/pkg/signature"
	"github.com/pojntfx/stfs/pkg/zzverif/vsync"
	"stfsmc/model"
	"stfsmc/ops"
	"stfsmc/rig"
)

// E1Job: replay Hist on a fresh stack; judge the last call with the requested oracles.
type E1Job struct {
	Cfg         rig.Config   `json:"cfg"`
	Setup       []ops.Op     `json:"setup,omitempty"` // executed on both sides before Hist, never judged (initial state builder)
	Hist        []ops.Op     `json:"hist"`
	Oracles     []string     `json:"oracles"`
	AllJ        bool         `json:"allj,omitempty"`         // C07: all prefixes j instead of {0, n-1, n}
	Foreign     *ForeignSpec `json:"foreign,omitempty"`      // C17: the drive starts as a foreign tar archive
	TornBytes   int          `json:"torn_bytes,omitempty"`   // C15: the tape loses this many bytes at its end before the read-only instance opens it
	AbsentIndex bool         `json:"absent_index,omitempty"` // C15: the read-only instance starts without an index
	HInit       string       `json:"hinit,omitempty"`        // handle level: initial content spec of /f, or "<missing>"
	HFlags      int          `json:"hflags,omitempty"`       // handle level: OpenFile flags
	Level       string       `json:"level,omitempty"`        // "" = afero level (hierarchical reference), "archive" = Operations level (flat reference)
	NoWalk      bool         `json:"nowalk,omitempty"`       // state enumeration only (level raw, no oracles): never read through the file system, so that states with a streaming read under way are kept
}

type E1Res struct {
	Outcome     string      `json:"outcome"`
	Reason      string      `json:"reason"` // model's verdict: "" ok, else reason
	Key         string      `json:"key"`
	Diverged    bool        `json:"diverged"` // implementation state != model state (or hang): do not expand
	Viol        []Violation `json:"viol,omitempty"`
	Info        ExecInfo    `json:"info"`
	Harness     string      `json:"harness,omitempty"` // harness-level failure (never a verdict)
	DivergedWhy string      `json:"diverged_why,omitempty"`
	TapeLen     int         `json:"tape_len"`
	Records     int         `json:"records"`
}

var ctxBG = context.Background()

func has(list []string, s string) bool {
	for _, x := range list {
		if x == s {
			return true
		}
	}
	return false
}

func kindOf(m *model.FS, p string) string {
	if p == "" {
		return ""
	}
	n, ok := m.N[model.Clean(p)]
	if !ok {
		if _, pok := m.N[path.Dir(model.Clean(p))]; !pok {
			return "orphan"
		}
		return "missing"
	}
	if n.Dir {
		if len(m.DirectChildren(model.Clean(p))) > 0 {
			return "dir+"
		}
		return "dir"
	}
	if len(n.Data) == 0 {
		return "file0"
	}
	return "file"
}

// OpShape names the operation kind and the shape of its arguments in the model state before the call.
func OpShape(m *model.FS, o ops.Op) string {
	s := o.K + "(" + kindOf(m, o.P)
	if o.Q != "" {
		s += "->" + kindOf(m, o.Q)
		if strings.HasPrefix(model.Clean(o.Q), model.Clean(o.P)+"/") {
			s += ",into-self"
		}
	}
	if o.K == "openw" {
		s += "," + ops.FlagString(o.N)
		if o.C != "" {
			s += ",write"
		}
	}
	if o.K == "put" {
		if len(ops.Content(o.C)) == 0 {
			s += ",empty"
		}
	}
	return s + ")"
}

func role(p string, o ops.Op) string {
	P := model.Clean(o.P)
	Q := ""
	if o.Q != "" {
		Q = model.Clean(o.Q)
	}
	switch {
	case p == P:
		return "src"
	case Q != "" && p == Q:
		return "dst"
	case strings.HasPrefix(p, P+"/"):
		return "under-src"
	case Q != "" && strings.HasPrefix(p, Q+"/"):
		return "under-dst"
	case p == path.Dir(P):
		return "parent-of-src"
	case Q != "" && p == path.Dir(Q):
		return "parent-of-dst"
	case p != "/" && strings.HasPrefix(P, p+"/"):
		return "ancestor-of-src"
	}
	return "other"
}

func modelTree(m *model.FS) []rig.Entry {
	out := []rig.Entry{}
	for _, p := range m.Paths() {
		n := m.N[p]
		e := rig.Entry{Path: p, Perm: n.Perm, UID: n.UID, GID: n.GID, Mtime: -1, Atime: -1}
		if n.Dir {
			e.Kind = "d"
		} else {
			e.Kind = "f"
			e.Size = int64(len(n.Data))
			e.Data = rig.DataKey(n.Data)
		}
		if n.Mtime != nil {
			e.Mtime = *n.Mtime
		}
		if n.Atime != nil {
			e.Atime = *n.Atime
		}
		out = append(out, e)
	}
	return out
}

// diffTrees compares implementation tree a with reference tree b. If b's timestamps are -1 they are not compared;
// with strict=true all fields including ctime are compared.
func diffTrees(a, b []rig.Entry, strict bool, roleOf func(string) string) (shape []string, detail []string) {
	am, bm := map[string]rig.Entry{}, map[string]rig.Entry{}
	for _, e := range a {
		am[e.Path] = e
	}
	for _, e := range b {
		bm[e.Path] = e
	}
	add := func(p, d, det string) {
		shape = append(shape, roleOf(p)+":"+d)
		detail = append(detail, p+": "+d+" "+det)
	}
	for _, e := range a {
		r, ok := bm[e.Path]
		if !ok {
			add(e.Path, "extra", e.String())
			continue
		}
		if e.Err != "" && r.Err == "" {
			add(e.Path, "error", e.Err)
			continue
		}
		if e.Kind != r.Kind {
			add(e.Path, "kind", e.Kind+" vs "+r.Kind)
			continue
		}
		if e.Kind == "f" {
			if e.Size != r.Size {
				add(e.Path, "size", fmt.Sprintf("%d vs %d", e.Size, r.Size))
			}
			if e.Data != r.Data {
				add(e.Path, "content", e.Data+" vs "+r.Data)
			}
		}
		if e.Perm != r.Perm {
			add(e.Path, "perm", fmt.Sprintf("%o vs %o", e.Perm, r.Perm))
		}
		if e.UID != r.UID || e.GID != r.GID {
			add(e.Path, "owner", fmt.Sprintf("%d:%d vs %d:%d", e.UID, e.GID, r.UID, r.GID))
		}
		if (strict || r.Mtime != -1) && e.Mtime != r.Mtime {
			add(e.Path, "mtime", fmt.Sprintf("%d vs %d", e.Mtime, r.Mtime))
		}
		if (strict || r.Atime != -1) && e.Atime != r.Atime {
			add(e.Path, "atime", fmt.Sprintf("%d vs %d", e.Atime, r.Atime))
		}
		if strict && e.Ctime != r.Ctime {
			add(e.Path, "ctime", fmt.Sprintf("%d vs %d", e.Ctime, r.Ctime))
		}
		if strict && e.Link != r.Link {
			add(e.Path, "link", e.Link+" vs "+r.Link)
		}
		if strict && e.Err != r.Err {
			add(e.Path, "error", e.Err+" vs "+r.Err)
		}
	}
	for _, e := range b {
		if _, ok := am[e.Path]; !ok {
			add(e.Path, "missing", e.String())
		}
	}
	shape = uniqSorted(shape)
	return
}

func uniqSorted(s []string) []string {
	sort.Strings(s)
	out := s[:0]
	for i, x := range s {
		if i == 0 || x != s[i-1] {
			out = append(out, x)
		}
	}
	return out
}

func readTape(s *rig.Stack) []byte {
	b, _ := os.ReadFile(s.Drive)
	return b
}

// Rebuild builds a fresh stack over a copy of the drive with an empty index and runs the indexer exactly like
// STFS.Initialize does (minus its fall-through to mkdirRoot). The returned error is the indexer's.
func Rebuild(env *Env, cfg rig.Config, drive string) (*rig.Stack, error, error) {
	dir := env.TempDir()
	if err := CopyFile(drive, dir+"/drive.tar"); err != nil {
		return nil, nil, err
	}
	cfg.ReadOnly = false
	cfg.NoWriteOps = false
	cfg.Overwrite = false
	st, err := rig.NewStack(dir, cfg, env.Keys)
	if err != nil {
		return nil, nil, err
	}
	ierr := IndexInto(st, true)
	st.ComposeFromIndex()
	return st, ierr, nil
}

// IndexInto replays the whole tape of st into st's index (overwrite = wipe first), with the real decrypt/verify callbacks.
func IndexInto(st *rig.Stack, overwrite bool) error {
	ro := st.ReadOps
	reader, err := ro.GetBackend().GetReader()
	if err != nil {
		return fmt.Errorf("GetReader: %w", err)
	}
	ierr := recovery.Index(reader, ro.GetBackend().MagneticTapeIO, ro.GetMetadata(), ro.GetPipes(), ro.GetCrypto(),
		0, 0, overwrite, false, 0,
		func(hdr *tar.Header, i int) error {
			return encryption.DecryptHeader(hdr, ro.GetPipes().Encryption, ro.GetCrypto().Identity)
		},
		func(hdr *tar.Header, isRegular bool) error {
			return signature.VerifyHeader(hdr, isRegular, ro.GetPipes().Signature, ro.GetCrypto().Recipient)
		},
		func(hdr *configHeader) {},
	)
	if cerr := ro.GetBackend().CloseReader(); cerr != nil && ierr == nil {
		return fmt.Errorf("CloseReader: %w", cerr)
	}
	return ierr
}

// Reopen builds a fresh stack over copies of drive and index.
func Reopen(env *Env, cfg rig.Config, src *rig.Stack) (*rig.Stack, error) {
	dir := env.TempDir()
	if err := CopyFile(src.Drive, dir+"/drive.tar"); err != nil {
		return nil, err
	}
	if err := CopyFile(src.Index, dir+"/index.sqlite"); err != nil {
		return nil, err
	}
	cfg.Overwrite = false
	st, err := rig.NewStack(dir, cfg, env.Keys)
	if err != nil {
		return nil, err
	}
	return st, nil
}

// rowsKey renders index rows in a position-independent canonical form (including tombstones).
func rowsKey(rows []rig.Row) string {
	// rank positions
	pos := map[[2]int64]int{}
	var all [][2]int64
	for _, r := range rows {
		all = append(all, [2]int64{r.Record, r.Block}, [2]int64{r.LastRecord, r.LastBlock})
	}
	sort.Slice(all, func(i, j int) bool {
		if all[i][0] != all[j][0] {
			return all[i][0] < all[j][0]
		}
		return all[i][1] < all[j][1]
	})
	for _, p := range all {
		if _, ok := pos[p]; !ok {
			pos[p] = len(pos)
		}
	}
	lines := []string{}
	for _, r := range rows {
		pax := r.Pax
		// signatures and embedded headers differ per run
		if i := strings.Index(pax, "STFS.Signature"); i >= 0 {
			pax = pax[:i] + "sig"
		}
		lines = append(lines, fmt.Sprintf("%s|%s|%d|%d|%d|%o|%d|%d|c%d|l%d|%s", rig.NormName(r.Name), r.Linkname, r.Deleted, r.Typeflag, r.Size, r.Mode, r.UID, r.GID,
			pos[[2]int64{r.Record, r.Block}], pos[[2]int64{r.LastRecord, r.LastBlock}], pax))
	}
	sort.Strings(lines)
	return strings.Join(lines, "\n")
}

func hashKey(parts ...string) string {
	h := sha256.New()
	for _, p := range parts {
		h.Write([]byte(p))
		h.Write([]byte{0})
	}
	return hex.EncodeToString(h.Sum(nil)[:12])
}

// RunE1 executes one E1 job.
func RunE1(env *Env, job *E1Job) *E1Res {
	if job.Level == "handle" {
		return RunE6(env, job)
	}
	if job.Level == "ro" {
		return RunC15(env, job)
	}
	res := &E1Res{}
	ph := &Phase{Name: "setup"}
	viol := func(prop, class, detail string) {
		if has(job.Oracles, prop) {
			res.Viol = append(res.Viol, Violation{Prop: prop, Class: class, Detail: detail})
		}
	}
	var shapeAtOp string
	info := RunManaged(ph, func() {
		dir := env.TempDir()
		st, err := rig.NewStack(dir, job.Cfg, env.Keys)
		if err != nil {
			res.Harness = "NewStack: " + err.Error()
			return
		}
		defer func() { st.Close() }()
		m := model.New(os.Getuid(), os.Getgid(), 0o777)
		if job.Foreign != nil {
			img, fm, err := BuildForeign(*job.Foreign, os.Getuid(), os.Getgid())
			if err != nil {
				res.Key = "unrepresentable" // e.g. a 101-byte component in USTAR
				res.Diverged = true
				res.Outcome = "unrepresentable:" + err.Error()
				return
			}
			if err := os.WriteFile(st.Drive, img, 0o600); err != nil {
				res.Harness = err.Error()
				return
			}
			fm.UID, fm.GID = os.Getuid(), os.Getgid()
			m = fm
		}
		if err := st.Init(); err != nil {
			if job.Foreign != nil {
				viol("C17", fmt.Sprintf("C17|open-fails|format=%s|root=%s|names=%s|%s", job.Foreign.Format, job.Foreign.RootStyle, job.Foreign.NameClass, NormErr(err)), fmt.Sprintf("archive: %s\nInitialize failed: %v", job.Foreign, err))
				res.Diverged = true
				return
			}
			res.Harness = "Initialize on an empty drive failed: " + err.Error()
			return
		}
		useModel := job.Level != "raw"
		execModel := func(o ops.Op) string {
			if !useModel {
				return ""
			}
			return ops.ExecModel(m, o)
		}
		// execImpl runs one call; "rebuild" / "reopen" replace the running instance by a fresh one over the same tape with
		// an empty / the same index (continuing a history from a non-initial, differently spelled index state)
		execImpl := func(o ops.Op) (error, string) {
			if o.K == "rebuild" || o.K == "reopen" {
				for _, h := range st.Handles {
					_, _ = Guard(func() error { return h.F.Close() })
				}
				dir := env.TempDir()
				if err := CopyFile(st.Drive, dir+"/drive.tar"); err != nil {
					return err, ""
				}
				if o.K == "reopen" {
					if err := CopyFile(st.Index, dir+"/index.sqlite"); err != nil {
						return err, ""
					}
				}
				ncfg := job.Cfg
				ncfg.Overwrite = false // a later process does not ask for an explicit overwrite again
				ns, err := rig.NewStack(dir, ncfg, env.Keys)
				if err != nil {
					return err, ""
				}
				st.Close()
				st = ns
				return Guard(func() error { return st.Init() })
			}
			if o.K == "reindex" {
				// what `stfs recovery index --overwrite` does: wipe and replay into the SAME (already opened) index store
				return Guard(func() error {
					err := IndexInto(st, true)
					st.ComposeFromIndex()
					return err
				})
			}
			return Guard(func() error { return ops.ExecImpl(st, o) })
		}
		for i, o := range job.Setup {
			ph.Name = fmt.Sprintf("setup[%d] %s", i, o)
			_, _ = execImpl(o)
			vsync.Quiesce()
			execModel(o)
		}
		n := len(job.Hist)
		for i := 0; i < n-1; i++ {
			o := job.Hist[i]
			ph.Name = fmt.Sprintf("prefix[%d] %s", i, o)
			_, _ = execImpl(o)
			vsync.Quiesce()
			execModel(o)
		}
		ctx := &stepCtx{env: env, job: job, st: st, viol: viol}
		if n > 0 {
			o := job.Hist[n-1]
			ctx.op = o
			ctx.shape = OpShape(m, o)
			shapeAtOp = ctx.shape
			ph.Name = "pre-walk"
			if !job.NoWalk {
				ctx.preTree = rig.Walk(st.AFS, "/")
				vsync.Quiesce()
			}
			ctx.preTape = readTape(st)
			ctx.mPre = m.Clone()
			ph.Name = "op"
			var pan string
			ctx.err, pan = execImpl(o)
			ctx.st = st
			vsync.Quiesce()
			if pan != "" {
				viol("C10", "C10|panic|"+ctx.shape, pan)
				viol("C02", "C02|panic|"+ctx.shape, pan)
				ctx.err = fmt.Errorf("panic: %s", pan)
			}
			ctx.reason = execModel(o)
			res.Outcome = errClass(ctx.err)
			if ctx.err != nil {
				res.Outcome += ":" + NormErr(ctx.err)
			}
			res.Reason = ctx.reason
		} else {
			ctx.shape = "init"
			ctx.mPre = m.Clone()
		}
		ctx.m = m
		ph.Name = "post-walk"
		if !job.NoWalk {
			ctx.postTree = rig.Walk(st.AFS, "/")
			vsync.Quiesce()
		}
		ctx.postTape = readTape(st)
		res.TapeLen = len(ctx.postTape)
		ctx.scan = rig.Scan(ctx.postTape)
		res.Records = len(ctx.scan.Recs)

		ph.Name = "oracle rows"
		liveRows, err := rig.DumpIndex(st.Index)
		if err != nil {
			res.Harness = "DumpIndex: " + err.Error()
			return
		}
		ctx.liveRows = liveRows

		// C02: also decides divergence
		ph.Name = "oracle C02"
		if job.Level == "raw" {
			res.Diverged = false
		} else if job.Level == "archive" {
			var why string
			res.Diverged, why = ctx.divergedFlat()
			if res.Diverged {
				res.DivergedWhy = why
			}
		} else {
			res.Diverged = ctx.oracleC02()
		}

		rebuiltKey := ""
		if has(job.Oracles, "C01") || has(job.Oracles, "C01x") || has(job.Oracles, "C07") || has(job.Oracles, "C04") || has(job.Oracles, "C12") || has(job.Oracles, "C17") {
			ph.Name = "oracle C01"
			rebuiltKey = ctx.oracleC01()
		}
		if has(job.Oracles, "C05") {
			ph.Name = "oracle C05"
			ctx.oracleC05()
		}
		if has(job.Oracles, "C13") {
			ph.Name = "oracle C13"
			ctx.oracleC13()
		}
		if has(job.Oracles, "C04") {
			ph.Name = "oracle C04"
			ctx.oracleC04()
			if ctx.poisoned {
				res.Diverged = true
			}
		}
		if has(job.Oracles, "C07") {
			ph.Name = "oracle C07"
			ctx.oracleC07()
		}
		if has(job.Oracles, "C09") {
			ph.Name = "oracle C09"
			ctx.oracleC09()
		}
		if has(job.Oracles, "C12") {
			ph.Name = "oracle C12"
			ctx.oracleC12()
		}
		if has(job.Oracles, "C17") && job.Foreign != nil {
			ph.Name = "oracle C17"
			ctx.oracleC17()
		}
		align := (len(ctx.postTape) / 512) % st.Cfg.RecordSize
		hk := ""
		for slot := 0; slot < 4; slot++ {
			if h := st.Handles[slot]; h != nil {
				hk += fmt.Sprintf("h%d:%s:%d:r%v:w%v:s%v;", slot, h.Path, h.Flags, h.Reads > 0, h.Writes > 0, h.Seeks > 0)
			}
		}
		res.Key = hashKey(m.Key(), rowsKey(liveRows), rebuiltKey, fmt.Sprint(align), hk)
		// release handles that are still open so that their goroutines and descriptors go away
		ph.Name = "cleanup"
		for _, h := range st.Handles {
			_, _ = Guard(func() error { return h.F.Close() })
		}
	})
	res.Info = info
	if info.Hang != nil {
		res.Diverged = true
		cls := fmt.Sprintf("hang|%s|phase=%s|%s", shapeAtOp, phaseKind(info.Hang.Phase), info.Hang.Key())
		det := fmt.Sprintf("deadlock in phase %q; waiters: %+v", info.Hang.Phase, info.Hang.Waiters)
		viol("C10", "C10|"+cls, det)
		if strings.HasPrefix(info.Hang.Phase, "op") {
			viol("C02", "C02|"+cls, det)
		}
		if job.Foreign != nil && (strings.HasPrefix(info.Hang.Phase, "op") || strings.HasPrefix(info.Hang.Phase, "prefix")) {
			// a follow-up call on an opened foreign archive that never returns: the archive cannot be used as a file system.
			// Calls in the prefix of a history run without a tree walk before them (the walk before the last call reads every
			// member, which can hide a drive that the open left locked), so a hang there is reported too.
			call := "last"
			if f := strings.Fields(info.Hang.Phase); strings.HasPrefix(info.Hang.Phase, "prefix") && len(f) > 1 {
				call = "first-after-open:" + f[1]
			}
			viol("C17", fmt.Sprintf("C17|call-never-returns|%s|format=%s|root=%s|%s", call, job.Foreign.Format, job.Foreign.RootStyle, info.Hang.Key()), fmt.Sprintf("archive: %s\nhistory: %s\n%s", job.Foreign, ops.HistString(job.Hist), det))
		}
		if !strings.HasPrefix(info.Hang.Phase, "op") {
			for _, p := range []string{"C01", "C05", "C13", "C04", "C07", "C12"} {
				if strings.HasSuffix(info.Hang.Phase, p) {
					viol(p, p+"|"+cls, det)
				}
			}
		}
	}
	for _, c := range info.Crashes {
		res.Diverged = true
		viol("C10", "C10|bg-panic|"+shapeAtOp+"|"+NormErr(fmt.Errorf("%s", c)), "a background goroutine panicked (the process would have crashed): "+c)
		viol("C02", "C02|bg-panic|"+shapeAtOp+"|"+NormErr(fmt.Errorf("%s", c)), "a background goroutine panicked (the process would have crashed): "+c)
	}
	if info.ClientPanic != "" && res.Harness == "" {
		res.Harness = "client thread panicked outside a guarded call: " + info.ClientPanic
	}
	return res
}

func phaseKind(p string) string {
	if i := strings.IndexAny(p, "[ "); i >= 0 && !strings.HasPrefix(p, "oracle") {
		return p[:i]
	}
	return p
}

type stepCtx struct {
	env   *Env
	job   *E1Job
	st    *rig.Stack
	op    ops.Op
	shape string
	viol  func(prop, class, detail string)

	m, mPre           *model.FS
	err               error
	reason            string
	preTree, postTree []rig.Entry
	preTape, postTape []byte
	scan              rig.ScanResult
	liveRows          []rig.Row

	rebuilt  *rig.Stack
	poisoned bool
}

func (c *stepCtx) hist() string {
	h := ops.HistString(c.job.Hist)
	if len(c.job.Setup) > 0 {
		h = "[setup: " + ops.HistString(c.job.Setup) + "] " + h
	}
	return h
}

// oracleC02 compares outcome and resulting tree with the reference. Returns true when the states differ.
func (c *stepCtx) oracleC02() bool {
	diverged := false
	if len(c.job.Hist) > 0 {
		implOK := c.err == nil
		modelOK := c.reason == ""
		if implOK != modelOK {
			diverged = true // the implementation may now hold state the tree walk cannot see (e.g. entries under a regular file)
			mv := "ok"
			if !modelOK {
				mv = "fail:" + c.reason
			}
			c.viol("C02", fmt.Sprintf("C02|outcome|%s|model=%s|impl=%s", c.shape, mv, errClass(c.err)),
				fmt.Sprintf("history: %s\nthe reference says %s, the implementation returned %v", c.hist(), mv, c.err))
		}
	}
	roleOf := func(p string) string { return role(p, c.op) }
	shape, detail := diffTrees(c.postTree, modelTree(c.m), false, roleOf)
	if len(shape) > 0 {
		diverged = true
		c.viol("C02", fmt.Sprintf("C02|state|%s|%s", c.shape, strings.Join(shape, ",")),
			fmt.Sprintf("history: %s\nimplementation returned %v, reference %q\ndifferences (implementation vs reference):\n  %s", c.hist(), c.err, c.reason, strings.Join(detail, "\n  ")))
	}
	// entries the call does not touch keep every attribute
	if len(c.job.Hist) > 0 && !diverged {
		touched := func(p string) bool {
			r := role(p, c.op)
			return r == "src" || r == "dst" || r == "under-src" || r == "under-dst"
		}
		var pre, post []rig.Entry
		for _, e := range c.preTree {
			if !touched(e.Path) {
				pre = append(pre, e)
			}
		}
		for _, e := range c.postTree {
			if !touched(e.Path) {
				post = append(post, e)
			}
		}
		// MkdirAll creates the missing ancestors of its argument: those are touched too
		if c.op.K == "mkdirall" {
			inPre := map[string]bool{}
			for _, e := range pre {
				inPre[e.Path] = true
			}
			P := model.Clean(c.op.P)
			o := post[:0]
			for _, e := range post {
				if !inPre[e.Path] && strings.HasPrefix(P, e.Path+"/") {
					continue
				}
				o = append(o, e)
			}
			post = o
		}
		shape, detail := diffTrees(post, pre, true, roleOf)
		if len(shape) > 0 {
			c.viol("C02", fmt.Sprintf("C02|untouched-changed|%s|%s", c.shape, strings.Join(shape, ",")),
				fmt.Sprintf("history: %s\nentries the call does not name changed (after vs before):\n  %s", c.hist(), strings.Join(detail, "\n  ")))
		}
	}
	return diverged
}

// oracleC01: tree(live) = tree(reopen) = tree(rebuild). Returns the canonical key of the rebuilt rows.
func (c *stepCtx) oracleC01() string {
	roleOf := func(p string) string { return role(p, c.op) }
	// reopen
	ro, err := Reopen(c.env, c.st.Cfg, c.st)
	if err != nil {
		c.viol("C01", "C01|reopen-error|"+c.shape+"|"+NormErr(err), fmt.Sprintf("history: %s\nreopen failed: %v", c.hist(), err))
	} else {
		defer ro.Close()
		if err := ro.Init(); err != nil {
			c.viol("C01", "C01|reopen-init-error|"+c.shape+"|"+NormErr(err), fmt.Sprintf("history: %s\nInitialize on reopen failed: %v", c.hist(), err))
		} else {
			t := rig.Walk(ro.AFS, "/")
			vsync.Quiesce()
			if shape, detail := diffTrees(t, c.postTree, true, roleOf); len(shape) > 0 {
				c.viol("C01", fmt.Sprintf("C01|reopen|%s|%s", c.shape, strings.Join(shape, ",")),
					fmt.Sprintf("history: %s\nreopened instance vs running instance:\n  %s", c.hist(), strings.Join(detail, "\n  ")))
			}
		}
	}
	// rebuild
	rb, ierr, herr := Rebuild(c.env, c.st.Cfg, c.st.Drive)
	if herr != nil {
		c.viol("C01", "C01|rebuild-harness|"+NormErr(herr), herr.Error())
		return ""
	}
	c.rebuilt = rb
	if ierr != nil {
		c.viol("C01", fmt.Sprintf("C01|rebuild-error|%s|%s", c.shape, NormErr(ierr)), fmt.Sprintf("history: %s\nrebuilding the index from the tape failed: %v", c.hist(), ierr))
	}
	t := rig.Walk(rb.AFS, "/")
	vsync.Quiesce()
	if shape, detail := diffTrees(t, c.postTree, true, roleOf); len(shape) > 0 {
		c.viol("C01", fmt.Sprintf("C01|rebuild|%s|%s", c.shape, strings.Join(shape, ",")),
			fmt.Sprintf("history: %s\nrebuilt-from-tape instance vs running instance:\n  %s", c.hist(), strings.Join(detail, "\n  ")))
		if c.job.Foreign != nil {
			c.viol("C17", fmt.Sprintf("C17|rebuild-differs|after=%s|root=%s|%s", c.shape, c.job.Foreign.RootStyle, strings.Join(shape, ",")),
				fmt.Sprintf("archive: %s\nhistory: %s\nrebuilt-from-tape instance vs running instance:\n  %s", c.job.Foreign, c.hist(), strings.Join(detail, "\n  ")))
		}
	}
	if ierr != nil && c.job.Foreign != nil {
		c.viol("C17", fmt.Sprintf("C17|rebuild-error|after=%s|root=%s|%s", c.shape, c.job.Foreign.RootStyle, NormErr(ierr)), fmt.Sprintf("archive: %s\nhistory: %s\nrebuild failed: %v", c.job.Foreign, c.hist(), ierr))
	}
	rows, err := rig.DumpIndex(rb.Index)
	if err != nil {
		return "err"
	}
	return rowsKey(rows)
}

// oracleC05: append-only, block aligned, standard tar stream.
func (c *stepCtx) oracleC05() {
	pre, post := c.preTape, c.postTape
	if len(c.job.Hist) > 0 {
		if len(post) < len(pre) || !bytes.Equal(post[:len(pre)], pre) {
			at := 0
			for at < len(pre) && at < len(post) && pre[at] == post[at] {
				at++
			}
			c.viol("C05", "C05|not-append-only|"+c.shape, fmt.Sprintf("history: %s\ntape before the call (%d bytes) is not a prefix of the tape after it (%d bytes); first difference at byte %d", c.hist(), len(pre), len(post), at))
		}
		if c.reason != "" && len(post) != len(pre) {
			c.viol("C05", fmt.Sprintf("C05|append-on-failed-precondition|%s|reason=%s|impl=%s", c.shape, c.reason, errClass(c.err)),
				fmt.Sprintf("history: %s\nthe reference rejects the call (%s) but the tape grew from %d to %d bytes (implementation returned %v)", c.hist(), c.reason, len(pre), len(post), c.err))
		}
	}
	if len(post)%512 != 0 {
		c.viol("C05", "C05|not-block-aligned|"+c.shape, fmt.Sprintf("history: %s\ntape length %d is not a multiple of 512", c.hist(), len(post)))
	}
	if !c.scan.Complete {
		c.viol("C05", "C05|scanner-stopped|"+c.shape+"|"+c.scan.StopWhy, fmt.Sprintf("history: %s\nindependent block scanner stopped at %d: %s", c.hist(), c.scan.StopOff, c.scan.StopWhy))
	}
	// archive/tar, restarted after every trailer, must walk from the first to the last byte and see the same records
	names, ends, terr := tarWalk(post)
	if terr != nil {
		c.viol("C05", "C05|tar-reader-error|"+c.shape, fmt.Sprintf("history: %s\narchive/tar failed: %v", c.hist(), terr))
	} else if len(names) != len(c.scan.Recs) {
		c.viol("C05", "C05|tar-reader-record-count|"+c.shape, fmt.Sprintf("history: %s\narchive/tar sees %d records, block scanner %d", c.hist(), len(names), len(c.scan.Recs)))
	} else {
		for i, r := range c.scan.Recs {
			if ends[i] != r.DataOff+r.Size {
				c.viol("C05", "C05|tar-reader-offset|"+c.shape, fmt.Sprintf("history: %s\nrecord %d: archive/tar ends payload at %d, scanner at %d", c.hist(), i, ends[i], r.DataOff+r.Size))
				break
			}
		}
	}
	// with no compression or encryption the member data of each live file's content record equals its content
	if c.st.Cfg.Compression == "" && c.st.Cfg.Encryption == "" && c.liveRows != nil {
		byOff := map[int64]rig.Rec{}
		for _, r := range c.scan.Recs {
			byOff[r.Off] = r
		}
		for _, row := range c.liveRows {
			if row.Deleted == 1 || row.Typeflag != int64(tar.TypeReg) || row.Linkname != "" {
				continue
			}
			p := rig.NormName(row.Name)
			n, ok := c.m.N[p]
			if !ok || n.Dir {
				continue // divergence is C02's business
			}
			off := (row.Record*int64(c.st.Cfg.RecordSize) + row.Block) * 512
			rec, ok := byOff[off]
			if !ok {
				c.viol("C05", "C05|content-record-not-at-position|"+c.shape, fmt.Sprintf("history: %s\n%s: index position (%d,%d) = byte %d is not a record start", c.hist(), p, row.Record, row.Block, off))
				continue
			}
			data := post[rec.DataOff : rec.DataOff+rec.Size]
			if !bytes.Equal(data, n.Data) {
				c.viol("C05", "C05|member-data-differs|"+c.shape, fmt.Sprintf("history: %s\n%s: member data at byte %d is %s, content is %s", c.hist(), p, off, rig.DataKey(data), rig.DataKey(n.Data)))
			}
		}
	}
}

// tarWalk iterates the image with archive/tar, restarting after each end-of-archive marker.
func tarWalk(img []byte) (names []string, ends []int64, err error) {
	off := int64(0)
	n := int64(len(img))
	for off < n {
		// skip zero blocks between archives
		if off+512 <= n && isZeroBlock(img[off:off+512]) {
			off += 512
			continue
		}
		if off+512 > n {
			return names, ends, fmt.Errorf("partial block at %d", off)
		}
		r := &countReader{b: img[off:]}
		tr := tar.NewReader(r)
		progressed := false
		for {
			hdr, e := tr.Next()
			if e != nil {
				if e.Error() == "EOF" {
					break
				}
				return names, ends, fmt.Errorf("at archive starting %d: %w", off, e)
			}
			progressed = true
			buf := new(bytes.Buffer)
			if _, e := buf.ReadFrom(tr); e != nil {
				return names, ends, fmt.Errorf("payload of %s: %w", hdr.Name, e)
			}
			names = append(names, hdr.Name)
			ends = append(ends, off+int64(r.n))
		}
		if !progressed {
			return names, ends, fmt.Errorf("archive/tar made no progress at %d", off)
		}
		// archive/tar has consumed up to and including (some of) the trailer; continue at the block after what it read
		adv := int64(r.n)
		adv = (adv + 511) / 512 * 512
		off += adv
	}
	return names, ends, nil
}

type countReader struct {
	b []byte
	n int
}

func (c *countReader) Read(p []byte) (int, error) {
	if c.n >= len(c.b) {
		return 0, errEOF
	}
	k := copy(p, c.b[c.n:])
	c.n += k
	return k, nil
}

func isZeroBlock(b []byte) bool {
	for _, x := range b {
		if x != 0 {
			return false
		}
	}
	return true
}

// oracleC13: namespace well-formedness and listing/lookup agreement.
func (c *stepCtx) oracleC13() {
	fsys := c.st.AFS
	// (1) live rows = reachable set
	reach := map[string]rig.Entry{}
	for _, e := range c.postTree {
		reach[e.Path] = e
	}
	live := map[string]rig.Row{}
	for _, r := range c.liveRows {
		if r.Deleted == 1 {
			continue
		}
		p := rig.NormName(r.Name)
		if r.Linkname != "" {
			p = rig.NormName(r.Linkname)
		}
		live[p] = r
	}
	created := "created-by=" + c.op.K
	for p := range live {
		if _, ok := reach[p]; !ok {
			why := "unreachable"
			par := path.Dir(p)
			if pr, ok := live[par]; !ok {
				why = "orphan"
			} else if pr.Typeflag != int64(tar.TypeDir) {
				why = "parent-not-dir"
			}
			c.viol("C13", fmt.Sprintf("C13|%s|%s|%s", why, created, c.shape), fmt.Sprintf("history: %s\nlive index entry %s is not reachable by listing from the root (%s)", c.hist(), p, why))
		}
	}
	for p := range reach {
		if _, ok := live[p]; !ok {
			c.viol("C13", fmt.Sprintf("C13|listed-not-live|%s", c.shape), fmt.Sprintf("history: %s\n%s is reachable by listing but has no live index entry", c.hist(), p))
		}
	}
	// (2) parents exist and are directories
	for p := range reach {
		if p == "/" {
			continue
		}
		par, ok := reach[path.Dir(p)]
		if !ok || par.Kind != "d" {
			c.viol("C13", fmt.Sprintf("C13|parent-not-dir|%s|%s", created, c.shape), fmt.Sprintf("history: %s\n%s has parent %s which is not a directory", c.hist(), p, path.Dir(p)))
		}
	}
	// (3)+(4) listings
	for _, e := range c.postTree {
		if e.Kind != "d" || e.Err != "" {
			continue
		}
		kids := []string{}
		for p := range reach {
			if p != "/" && path.Dir(p) == e.Path {
				kids = append(kids, path.Base(p))
			}
		}
		sort.Strings(kids)
		want := map[string]bool{}
		for _, k := range kids {
			want[k] = true
		}
		counts := uniqInts([]int{-1, 0, 1, 2, 3, len(kids) - 1, len(kids), len(kids) + 1})
		if counts[0] < -1 {
			counts = counts[1:]
		}
		for _, n := range counts {
			for _, variant := range []string{"Readdir", "Readdirnames"} {
				f, err := fsys.Open(e.Path)
				if err != nil {
					c.viol("C13", "C13|open-dir-error|"+c.shape, fmt.Sprintf("history: %s\nOpen(%s): %v", c.hist(), e.Path, err))
					continue
				}
				var names []string
				var infos []os.FileInfo
				if variant == "Readdir" {
					infos, err = f.Readdir(n)
					for _, i := range infos {
						names = append(names, i.Name())
					}
				} else {
					names, err = f.Readdirnames(n)
				}
				_ = f.Close()
				nclass := fmt.Sprint(n)
				if n == len(kids) && n > 3 {
					nclass = "children"
				} else if n == len(kids)+1 && n > 3 {
					nclass = "children+1"
				} else if n == len(kids)-1 && n > 3 {
					nclass = "children-1"
				}
				if err != nil {
					c.viol("C13", fmt.Sprintf("C13|%s-error|n=%s", variant, nclass), fmt.Sprintf("history: %s\n%s(%d) on %s: %v", c.hist(), variant, n, e.Path, err))
					continue
				}
				seen := map[string]bool{}
				for _, nm := range names {
					if seen[nm] {
						c.viol("C13", fmt.Sprintf("C13|%s-duplicate|n=%s", variant, nclass), fmt.Sprintf("history: %s\n%s(%d) on %s lists %q twice: %v", c.hist(), variant, n, e.Path, nm, names))
					}
					seen[nm] = true
					if !want[nm] {
						c.viol("C13", fmt.Sprintf("C13|%s-not-a-child|n=%s", variant, nclass), fmt.Sprintf("history: %s\n%s(%d) on %s lists %q which is not a direct child (children: %v)", c.hist(), variant, n, e.Path, nm, kids))
					}
				}
				if n <= 0 {
					if len(seen) != len(kids) {
						c.viol("C13", fmt.Sprintf("C13|%s-incomplete|n=%s", variant, nclass), fmt.Sprintf("history: %s\n%s(%d) on %s returned %v, children are %v", c.hist(), variant, n, e.Path, names, kids))
					}
				} else if len(names) > n {
					c.viol("C13", fmt.Sprintf("C13|%s-over-limit|n=%s|got=n+%d", variant, nclass, len(names)-n), fmt.Sprintf("history: %s\n%s(%d) on %s returned %d names: %v", c.hist(), variant, n, e.Path, len(names), names))
				}
				// listing entries agree with lookups
				for _, i := range infos {
					cp := path.Join(e.Path, i.Name())
					r, ok := reach[cp]
					if !ok {
						continue
					}
					k := "f"
					if i.IsDir() {
						k = "d"
					}
					if (r.Kind == "d" || r.Kind == "f") && (k != r.Kind || (r.Kind == "f" && i.Size() != r.Size)) {
						cls := "C13|listing-vs-stat|" + c.shape
						for _, o := range append(append([]ops.Op{}, c.job.Setup...), c.job.Hist...) {
							if o.K == "symlink" && model.Clean(o.Q) == cp {
								cls = "C13|listing-vs-stat|symlink-entry" // the listing describes a link with other attributes than Stat (D14)
							}
						}
						c.viol("C13", cls, fmt.Sprintf("history: %s\nlisting of %s says %s kind=%s size=%d, Stat says kind=%s size=%d", c.hist(), e.Path, i.Name(), k, i.Size(), r.Kind, r.Size))
					}
				}
			}
		}
	}
	// (4) every listed name can be stat-ed and opened: Walk already did both; errors are in Entry.Err
	for _, e := range c.postTree {
		if e.Err != "" {
			c.viol("C13", "C13|listed-but-unusable|"+c.shape+"|"+NormErr(fmt.Errorf("%s", e.Err)), fmt.Sprintf("history: %s\n%s: %s", c.hist(), e.Path, e.Err))
		}
	}
}

func uniqInts(a []int) []int {
	sort.Ints(a)
	out := a[:0]
	for i, x := range a {
		if i == 0 || x != a[i-1] {
			out = append(out, x)
		}
	}
	return out
}
