package engines

import (
	"bytes"
	"fmt"
	"io"
	"strings"

	"github.com/pojntfx/stfs/pkg/config"
	"github.com/pojntfx/stfs/pkg/encryption"
	"github.com/pojntfx/stfs/pkg/keys"
	"github.com/pojntfx/stfs/pkg/signature"
	"github.com/pojntfx/stfs/pkg/utility"
	"stfsmc/ops"
)

// C18Job: one matrix cell: key kind x password; Others = passwords that must NOT open the private half.
type C18Job struct {
	Kind     string   `json:"kind"` // enc-age enc-pgp sig-minisign sig-pgp
	Password string   `json:"password"`
	Others   []string `json:"others"`
	Pairs    int      `json:"pairs"`
}

type C18Res struct {
	Evals    int         `json:"evals"`
	Distinct []string    `json:"distinct"`
	Viol     []Violation `json:"viol,omitempty"`
	Harness  string      `json:"harness,omitempty"`
}

func pwClass(p string) string {
	if p != "" && strings.TrimSpace(p) != p {
		if strings.TrimSpace(p) == "" {
			return "whitespace-only"
		}
		q := "edge-whitespace"
		if strings.HasPrefix(p, " ") {
			q += "-leading"
		}
		if strings.HasSuffix(p, "\n") {
			q += "-newline"
		}
		for _, r := range p {
			if r > 127 {
				q += "-multibyte"
				break
			}
		}
		return q
	}
	switch {
	case p == "":
		return "empty"
	case len(p) >= 512:
		return "1KiB"
	case len(p) >= 32 && strings.Trim(p, "x") == "":
		return "long-ascii"
	}
	for _, r := range p {
		if r > 127 {
			return "multibyte"
		}
	}
	return "ascii"
}

type pair struct {
	priv, pub     []byte
	recipient, id interface{}
}

func RunC18(env *Env, job *C18Job) (res *C18Res) {
	res = &C18Res{}
	parts := strings.SplitN(job.Kind, "-", 2)
	role, format := parts[0], parts[1]
	cell := fmt.Sprintf("%s|pw=%s", job.Kind, pwClass(job.Password))
	viol := func(class, detail string) {
		res.Viol = append(res.Viol, Violation{Prop: "C18", Class: class, Detail: fmt.Sprintf("key kind %s, password class %s (%d bytes): %s", job.Kind, pwClass(job.Password), len(job.Password), detail)})
	}
	defer func() {
		if r := recover(); r != nil {
			viol("C18|panic|"+cell, fmt.Sprintf("%v", r))
		}
	}()
	pipes := config.PipeConfig{}
	if role == "enc" {
		pipes.Encryption = format
	} else {
		pipes.Signature = format
	}
	parseRecipient := func(pub []byte) (interface{}, error) {
		if role == "enc" {
			return keys.ParseRecipient(format, pub)
		}
		return keys.ParseSignerRecipient(format, pub)
	}
	parseIdentity := func(priv []byte, pw string) (interface{}, error) {
		if role == "enc" {
			return keys.ParseIdentity(format, priv, pw)
		}
		return keys.ParseSignerIdentity(format, priv, pw)
	}
	pairs := []*pair{}
	for i := 0; i < job.Pairs; i++ {
		res.Evals++
		res.Distinct = append(res.Distinct, fmt.Sprintf("%s|pair=%d|generate+parse", cell, i))
		priv, pub, err := utility.Keygen(pipes, config.PasswordConfig{Password: job.Password})
		if err != nil {
			viol("C18|keygen-error|"+cell+"|"+NormErr(err), err.Error())
			return res
		}
		p := &pair{priv: priv, pub: pub}
		if p.recipient, err = parseRecipient(pub); err != nil {
			viol("C18|public-half-does-not-parse|"+cell+"|"+NormErr(err), err.Error())
			return res
		}
		if p.id, err = parseIdentity(priv, job.Password); err != nil {
			viol("C18|private-half-does-not-parse|"+cell+"|"+NormErr(err), "parsing the freshly generated private key with the password it was generated with failed: "+err.Error())
			return res
		}
		pairs = append(pairs, p)
	}
	datas := [][]byte{{}, []byte("hello"), ops.Content("R70000:3")}
	// round trips within each pair, and rejection across pairs
	for i, p := range pairs {
		for _, d := range datas {
			dc := fmt.Sprintf("len=%d", len(d))
			res.Evals++
			res.Distinct = append(res.Distinct, fmt.Sprintf("%s|pair=%d|roundtrip|%s", cell, i, dc))
			if role == "enc" {
				// string form
				ct, err := encryption.EncryptString(string(d), format, p.recipient)
				if err != nil {
					viol("C18|encrypt-string-error|"+cell+"|"+dc, err.Error())
					continue
				}
				pt, err := encryption.DecryptString(ct, format, p.id)
				if err != nil || pt != string(d) {
					viol("C18|decrypt-string-roundtrip|"+cell+"|"+dc, fmt.Sprintf("err=%v, equal=%v", err, pt == string(d)))
				}
				// stream form
				var buf bytes.Buffer
				w, err := encryption.Encrypt(&buf, format, p.recipient)
				if err != nil {
					viol("C18|encrypt-error|"+cell+"|"+dc, err.Error())
					continue
				}
				_, _ = w.Write(d)
				if err := w.Close(); err != nil {
					viol("C18|encrypt-close-error|"+cell+"|"+dc, err.Error())
					continue
				}
				cipher := append([]byte(nil), buf.Bytes()...)
				r, err := encryption.Decrypt(bytes.NewReader(cipher), format, p.id)
				if err != nil {
					viol("C18|decrypt-error|"+cell+"|"+dc, err.Error())
					continue
				}
				back, err := io.ReadAll(r)
				if err != nil || !bytes.Equal(back, d) {
					viol("C18|decrypt-roundtrip|"+cell+"|"+dc, fmt.Sprintf("err=%v equal=%v", err, bytes.Equal(back, d)))
				}
				// another pair must not decrypt it
				for j, q := range pairs {
					if j == i {
						continue
					}
					res.Evals++
					if pt, err := encryption.DecryptString(ct, format, q.id); err == nil {
						viol("C18|other-pair-decrypts-string|"+cell+"|"+dc, fmt.Sprintf("pair %d decrypted data encrypted for pair %d: %q", j, i, pt))
					}
					if r, err := encryption.Decrypt(bytes.NewReader(cipher), format, q.id); err == nil {
						if b, err := io.ReadAll(r); err == nil {
							viol("C18|other-pair-decrypts|"+cell+"|"+dc, fmt.Sprintf("pair %d decrypted data encrypted for pair %d (%d bytes)", j, i, len(b)))
						}
					}
				}
			} else {
				sig, err := signature.SignString(string(d), true, format, p.id)
				if err != nil {
					viol("C18|sign-string-error|"+cell+"|"+dc, err.Error())
					continue
				}
				if err := signature.VerifyString(string(d), true, format, p.recipient, sig); err != nil {
					viol("C18|verify-string-roundtrip|"+cell+"|"+dc, err.Error())
				}
				sr, sign, err := signature.Sign(bytes.NewReader(d), true, format, p.id)
				if err != nil {
					viol("C18|sign-error|"+cell+"|"+dc, err.Error())
					continue
				}
				_, _ = io.Copy(io.Discard, sr)
				ssig, err := sign()
				if err != nil {
					viol("C18|sign-finish-error|"+cell+"|"+dc, err.Error())
					continue
				}
				verifyStream := func(rcp interface{}, data []byte) error {
					vr, verify, err := signature.Verify(bytes.NewReader(data), true, format, rcp, ssig)
					if err != nil {
						return err
					}
					if _, err := io.Copy(io.Discard, vr); err != nil {
						return err
					}
					return verify()
				}
				if err := verifyStream(p.recipient, d); err != nil {
					viol("C18|verify-roundtrip|"+cell+"|"+dc, err.Error())
				}
				// altered data must not verify
				alt := append(append([]byte(nil), d...), 'x')
				if err := signature.VerifyString(string(alt), true, format, p.recipient, sig); err == nil {
					viol("C18|altered-string-verifies|"+cell+"|"+dc, "a signature verified for data it was not made for")
				}
				if err := verifyStream(p.recipient, alt); err == nil {
					viol("C18|altered-stream-verifies|"+cell+"|"+dc, "a signature verified for data it was not made for")
				}
				for j, q := range pairs {
					if j == i {
						continue
					}
					res.Evals++
					if err := signature.VerifyString(string(d), true, format, q.recipient, sig); err == nil {
						viol("C18|other-pair-verifies-string|"+cell+"|"+dc, fmt.Sprintf("the public key of pair %d verified a signature made by pair %d", j, i))
					}
					if err := verifyStream(q.recipient, d); err == nil {
						viol("C18|other-pair-verifies|"+cell+"|"+dc, fmt.Sprintf("the public key of pair %d verified a signature made by pair %d", j, i))
					}
				}
			}
		}
	}
	// wrong passwords must not open the private half
	for _, other := range job.Others {
		if other == job.Password {
			continue
		}
		res.Evals++
		res.Distinct = append(res.Distinct, fmt.Sprintf("%s|wrong-password=%s", cell, pwClass(other)))
		func() {
			defer func() {
				if r := recover(); r != nil {
					viol("C18|panic-on-wrong-password|"+cell+"|wrong="+pwClass(other), fmt.Sprintf("%v", r))
				}
			}()
			id, err := parseIdentity(pairs[0].priv, other)
			if err != nil {
				return
			}
			// it parsed: it must at least be unusable
			usable := false
			if role == "enc" {
				ct, _ := encryption.EncryptString("probe", format, pairs[0].recipient)
				if pt, err := encryption.DecryptString(ct, format, id); err == nil && pt == "probe" {
					usable = true
				}
			} else {
				if sig, err := signature.SignString("probe", true, format, id); err == nil {
					if signature.VerifyString("probe", true, format, pairs[0].recipient, sig) == nil {
						usable = true
					}
				}
			}
			if usable {
				viol("C18|wrong-password-accepted|"+cell+"|wrong="+pwClass(other), fmt.Sprintf("the private key generated with password class %s parses and works with a password of class %s", pwClass(job.Password), pwClass(other)))
			}
		}()
	}
	return res
}
