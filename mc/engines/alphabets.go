package engines

import (
	"os"

	"stfsmc/ops"
)

// AlphabetA is the afero-level alphabet over a path universe (simplest operations first).
func AlphabetA(paths []string, contents []string, mkdirAll []string, removeAll []string, attrs bool) []ops.Op {
	a := []ops.Op{}
	for _, p := range paths {
		a = append(a, ops.Op{K: "mkdir", P: p})
	}
	for _, p := range paths {
		for _, c := range contents {
			a = append(a, ops.Op{K: "put", P: p, C: c})
		}
	}
	for _, p := range paths {
		a = append(a, ops.Op{K: "remove", P: p})
	}
	for _, p := range removeAll {
		a = append(a, ops.Op{K: "removeall", P: p})
	}
	for _, p := range mkdirAll {
		a = append(a, ops.Op{K: "mkdirall", P: p})
	}
	for _, p := range paths {
		for _, q := range paths {
			if p != q {
				a = append(a, ops.Op{K: "rename", P: p, Q: q})
			}
		}
	}
	if attrs {
		for _, p := range paths {
			a = append(a, ops.Op{K: "chmod", P: p, N: 0o600})
		}
		for _, p := range paths {
			a = append(a, ops.Op{K: "chown", P: p})
		}
		for _, p := range paths {
			a = append(a, ops.Op{K: "chtimes", P: p})
		}
	}
	return a
}

// SmallA: three paths, two contents.
func SmallA() []ops.Op {
	return AlphabetA([]string{"/a", "/b", "/a/c"}, []string{"", "xy"}, []string{"/a/c/d"}, []string{"/a", "/nope"}, true)
}

// FullA: DESIGN §6 C01 alphabet A.
func FullA() []ops.Op {
	a := AlphabetA([]string{"/a", "/b", "/a/c", "/b/c"}, []string{"", "x", "T600"}, []string{"/a/c/d", "/b/c"}, []string{"/a", "/b", "/a/c", "/nope"}, true)
	a = append(a, ops.Op{K: "mkdir", P: "/a/c/d"}, ops.Op{K: "put", P: "/a/c/d", C: "x"}, ops.Op{K: "remove", P: "/a/c/d"})
	return a
}

// FlagAlphabet: the OpenFile flag lattice on one path followed by Write/Close.
func FlagAlphabet(p string) []ops.Op {
	a := []ops.Op{}
	for _, acc := range []int{os.O_RDONLY, os.O_WRONLY, os.O_RDWR} {
		for mask := 0; mask < 16; mask++ {
			fl := acc
			if mask&1 != 0 {
				fl |= os.O_CREATE
			}
			if mask&2 != 0 {
				fl |= os.O_EXCL
			}
			if mask&4 != 0 {
				fl |= os.O_TRUNC
			}
			if mask&8 != 0 {
				fl |= os.O_APPEND
			}
			a = append(a, ops.Op{K: "openw", P: p, N: fl})
			if acc != os.O_RDONLY {
				a = append(a, ops.Op{K: "openw", P: p, N: fl, C: "AB"})
			}
		}
	}
	return a
}
