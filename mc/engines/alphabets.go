package engines

import (
	"os"
	"strings"

	"stfsmc/ops"
)

// AlphabetA is the afero-level alphabet over a path universe (simplest operations first).
func AlphabetA(paths []string, contents []string, mkdirAll []string, removeAll []string, attrs bool) []ops.Op {
	a := []ops.Op{}
	for _, p := range paths {
		a = append(a, ops.Op{K: "mkdir", P: p})
	}
	for _, p := range paths {
		for _, c := range contents {
			a = append(a, ops.Op{K: "put", P: p, C: c})
		}
	}
	// the same content as a plain put, written as Write; Sync; Write; Close on one handle (two flushes of the write buffer)
	for i, p := range paths {
		if i < 2 && len(contents) > 1 {
			a = append(a, ops.Op{K: "putp", P: p, C: contents[1], N: 1})
		}
	}
	for _, p := range paths {
		a = append(a, ops.Op{K: "remove", P: p})
	}
	for _, p := range removeAll {
		a = append(a, ops.Op{K: "removeall", P: p})
	}
	for _, p := range mkdirAll {
		a = append(a, ops.Op{K: "mkdirall", P: p})
	}
	for _, p := range paths {
		for _, q := range paths {
			if p != q {
				a = append(a, ops.Op{K: "rename", P: p, Q: q})
			}
		}
	}
	// renaming an entry onto itself, and the same entry spelled without the leading slash
	for i, p := range paths {
		if i < 2 {
			a = append(a, ops.Op{K: "rename", P: p, Q: p})
		}
	}
	if len(paths) > 2 {
		a = append(a, ops.Op{K: "rename", P: strings.TrimPrefix(paths[0], "/"), Q: paths[2]}, ops.Op{K: "mkdir", P: strings.TrimPrefix(paths[1], "/")})
	}
	// the root itself as the target of a removal
	a = append(a, ops.Op{K: "remove", P: "/"}, ops.Op{K: "removeall", P: "/"})
	if attrs {
		a = append(a, ops.Op{K: "chtimesz", P: paths[0]})
		for _, p := range paths {
			a = append(a, ops.Op{K: "chmod", P: p, N: 0o600})
		}
		for _, p := range paths {
			a = append(a, ops.Op{K: "chown", P: p})
		}
		for _, p := range paths {
			a = append(a, ops.Op{K: "chtimes", P: p})
		}
	}
	return a
}

// SmallA: three paths, two contents.
func SmallA() []ops.Op {
	a := AlphabetA([]string{"/a", "/b", "/a/c"}, []string{"", "xy"}, []string{"/a/c/d"}, []string{"/a", "/nope"}, true)
	return append(a, ops.Op{K: "rebuild"})
}

// FullA: DESIGN §6 C01 alphabet A.
func FullA() []ops.Op {
	a := AlphabetA([]string{"/a", "/b", "/a/c", "/b/c"}, []string{"", "x", "T600"}, []string{"/a/c/d", "/b/c"}, []string{"/a", "/b", "/a/c", "/nope"}, true)
	a = append(a, ops.Op{K: "mkdir", P: "/a/c/d"}, ops.Op{K: "put", P: "/a/c/d", C: "x"}, ops.Op{K: "remove", P: "/a/c/d"}, ops.Op{K: "rename", P: "/a", Q: "/a/c/d"}, ops.Op{K: "rebuild"}, ops.Op{K: "reopen"})
	return a
}

// FlagAlphabet: the OpenFile flag lattice on one path followed by Write/Close.
func FlagAlphabet(p string) []ops.Op {
	a := []ops.Op{}
	for _, acc := range []int{os.O_RDONLY, os.O_WRONLY, os.O_RDWR} {
		for mask := 0; mask < 16; mask++ {
			fl := acc
			if mask&1 != 0 {
				fl |= os.O_CREATE
			}
			if mask&2 != 0 {
				fl |= os.O_EXCL
			}
			if mask&4 != 0 {
				fl |= os.O_TRUNC
			}
			if mask&8 != 0 {
				fl |= os.O_APPEND
			}
			a = append(a, ops.Op{K: "openw", P: p, N: fl})
			if acc != os.O_RDONLY {
				a = append(a, ops.Op{K: "openw", P: p, N: fl, C: "AB"})
			}
		}
	}
	return a
}

// AlphabetB is the archive-level alphabet (Operations API): batched Archive, content/metadata Update, Delete, Move.
func AlphabetB(full bool) []ops.Op {
	a := []ops.Op{}
	batches := []string{"d", "e", "g", "d,f", "e,h,k", "d,f,n", "e,g"}
	if full {
		batches = append(batches, "f", "h", "k", "g,e", "d,n,g", "k,h,e")
	}
	for _, b := range batches {
		a = append(a, ops.Op{K: "archive", P: b})
	}
	upd := []ops.Op{
		{K: "update", P: "/e", C: "T513:1", N: 1},
		{K: "update", P: "/g", C: "T5:2", N: 1},
		{K: "update", P: "/g", N: 0},
		{K: "update", P: "/d/f", C: "", N: 1},
		{K: "update", P: "/d", N: 0},
	}
	if full {
		upd = append(upd, ops.Op{K: "update", P: "/d/f", C: "T1024:4", N: 1}, ops.Op{K: "update", P: "/e", N: 0}, ops.Op{K: "update", P: "/h", C: "T512:9", N: 1})
	}
	a = append(a, upd...)
	for _, p := range []string{"/e", "/g", "/d", "/d/f"} {
		a = append(a, ops.Op{K: "delete", P: p})
	}
	mv := [][2]string{{"/e", "/g"}, {"/g", "/e"}, {"/d", "/m"}, {"/d/f", "/e"}, {"/g", "/d/g"}, {"/m", "/d"}}
	for _, m := range mv {
		a = append(a, ops.Op{K: "move", P: m[0], Q: m[1]})
	}
	return a
}

// WSetups builds the initial states of the C12 exploration: all subsets (size <= maxSize) of the top-level names,
// each populated with children x, x_ and d/x.
// WSubsets returns the name subsets in the same order as WSetups.
func WSubsets(names []string, maxSize int) [][]string {
	out := [][]string{}
	n := len(names)
	for mask := 1; mask < 1<<n; mask++ {
		sub := []string{}
		for i := 0; i < n; i++ {
			if mask&(1<<i) != 0 {
				sub = append(sub, names[i])
			}
		}
		if len(sub) <= maxSize {
			out = append(out, sub)
		}
	}
	return out
}

func WSetups(names []string, maxSize int) [][]ops.Op {
	out := [][]ops.Op{}
	n := len(names)
	for mask := 1; mask < 1<<n; mask++ {
		cnt := 0
		for i := 0; i < n; i++ {
			if mask&(1<<i) != 0 {
				cnt++
			}
		}
		if cnt > maxSize {
			continue
		}
		setup := []ops.Op{}
		for i := 0; i < n; i++ {
			if mask&(1<<i) == 0 {
				continue
			}
			w := "/" + names[i]
			setup = append(setup,
				ops.Op{K: "mkdir", P: w},
				ops.Op{K: "put", P: w + "/x", C: "in " + names[i]},
				ops.Op{K: "put", P: w + "/x_", C: ""},
				ops.Op{K: "mkdir", P: w + "/d"},
				ops.Op{K: "put", P: w + "/d/x", C: "deep " + names[i]},
				ops.Op{K: "put", P: w + "/d/da", C: "child whose name starts with a character of its parent's path"},
				ops.Op{K: "mkdir", P: w + "/d/ä e"},
				ops.Op{K: "put", P: w + "/d/ä e/y.z", C: "deeper " + names[i]},
			)
		}
		out = append(out, setup)
	}
	return out
}

// WAlphabet: recursive operations over the top-level names.
func WAlphabet(names []string) []ops.Op {
	a := []ops.Op{}
	for _, w := range names {
		a = append(a, ops.Op{K: "removeall", P: "/" + w})
	}
	for _, w := range names {
		a = append(a, ops.Op{K: "remove", P: "/" + w})
	}
	for _, w := range names {
		for _, v := range names {
			if w != v {
				a = append(a, ops.Op{K: "rename", P: "/" + w, Q: "/" + v})
			}
		}
		a = append(a, ops.Op{K: "rename", P: "/" + w, Q: "/" + w + "/sub"})
		a = append(a, ops.Op{K: "rename", P: "/" + w, Q: "/" + w + "/d/sub"})
	}
	for _, w := range names {
		for _, v := range names {
			if w != v {
				a = append(a, ops.Op{K: "rename", P: "/" + w + "/x", Q: "/" + v + "/x"})
			}
		}
	}
	// nested directories: within the same parent, into another top-level directory, and recursive removal
	for _, w := range names {
		a = append(a, ops.Op{K: "rename", P: "/" + w + "/d", Q: "/" + w + "/e"}, ops.Op{K: "removeall", P: "/" + w + "/d"}, ops.Op{K: "rename", P: "/" + w + "/d/ä e", Q: "/" + w + "/d/ä f"})
		for _, v := range names {
			if w != v {
				a = append(a, ops.Op{K: "rename", P: "/" + w + "/d", Q: "/" + v + "/dd"})
			}
		}
	}
	// the same calls with non-canonical spellings of an argument (.., //, /./): the named subtree is what the cleaned
	// path designates
	for _, w := range names {
		a = append(a,
			ops.Op{K: "rename", P: "/" + w, Q: "/zz/../" + w + "/d/sub"},
			ops.Op{K: "rename", P: "/" + w, Q: "//" + w + "/sub"},
			ops.Op{K: "rename", P: "/./" + w, Q: "/" + w + "/d/sub"},
			ops.Op{K: "rename", P: "/" + w + "/./d", Q: "/" + w + "/../" + w + "/e2"},
			ops.Op{K: "removeall", P: "/zz/../" + w + "/d"},
			ops.Op{K: "removeall", P: "//" + w},
			// the directory spelled relative to the root
			ops.Op{K: "rename", P: w, Q: "/" + w + "/d/sub"},
			ops.Op{K: "rename", P: "/" + w, Q: w + "/sub"},
			ops.Op{K: "rename", P: "/" + w, Q: "/" + w})
	}
	return a
}

var WNames = []string{"a", "A", "ab", "a_", "a%", "a%b", "a_c", "a b", "a.", "ä"}

// HandleAlphabet: handle calls over tiny argument domains, relative to the initial content length l.
func HandleAlphabet(l int, appendMode bool) []ops.Op {
	a := []ops.Op{}
	for _, n := range []int{1, 3, 4096, 0} {
		a = append(a, ops.Op{K: "h.read", N: n})
	}
	offs := uniqInts([]int{-1, 0, 2, l, l + 3})
	for _, n := range []int{1, 3} {
		for _, off := range offs {
			a = append(a, ops.Op{K: "h.readat", N: n, H: off})
		}
	}
	for _, wh := range []int{0, 1, 2} {
		for _, off := range uniqInts([]int{-1, 0, 2, l + 3}) {
			a = append(a, ops.Op{K: "h.seek", N: off, H: wh})
		}
	}
	a = append(a, ops.Op{K: "h.write", C: "AB"}, ops.Op{K: "h.write", C: ""}, ops.Op{K: "h.writestring", C: "C"})
	if !appendMode {
		for _, off := range uniqInts([]int{0, 2, l + 2}) {
			a = append(a, ops.Op{K: "h.writeat", C: "Z", H: off})
		}
	}
	// l+40000: growing by more than 32 KiB and not by a multiple of it
	for _, n := range uniqInts([]int{-1, 0, 2, l + 4, l + 40000}) {
		a = append(a, ops.Op{K: "h.truncate", N: n})
	}
	a = append(a, ops.Op{K: "h.sync"}, ops.Op{K: "h.stat"})
	return a
}

// FaultAlphabet: afero calls + handle calls used by the fault enumerator (C10) and the handle scenario of C01.
// InitFinals: the Initialize variants that E3 explores as the faulted call.
func InitFinals() []ops.Op {
	return []ops.Op{{K: "init-first"}, {K: "init-again"}, {K: "open-existing"}, {K: "open-noindex"}}
}

func FaultAlphabet(full bool) []ops.Op {
	a := []ops.Op{
		{K: "mkdir", P: "/a"},
		{K: "put", P: "/f", C: "T1100"},
		{K: "put", P: "/a/f", C: "xy"},
		{K: "put", P: "/f", C: ""},
		{K: "remove", P: "/f"},
		{K: "remove", P: "/nope"},
		{K: "removeall", P: "/a"},
		{K: "removeall", P: "/nope"},
		{K: "rename", P: "/f", Q: "/a/f"},
		{K: "rename", P: "/nope", Q: "/x"},
		{K: "rename", P: "/f", Q: "/nodir/f"},
		{K: "chmod", P: "/f", N: 0o600},
		{K: "mkdirall", P: "/a/b/c"},
		{K: "read", P: "/f"},
		{K: "list", P: "/"},
		{K: "stat", P: "/f"},
		{K: "hopen", P: "/f", N: os.O_RDONLY, H: 0},
		{K: "hopen", P: "/f", N: os.O_RDWR, H: 1},
		{K: "hread", H: 0, N: 3},
		{K: "hreadall", H: 0},
		{K: "hwrite", H: 1, C: "Q"},
		{K: "hseek", H: 1, N: 0},
		{K: "htrunc", H: 1, N: 2},
		{K: "hsync", H: 1},
		{K: "hclose", H: 0},
		{K: "hclose", H: 1},
	}
	if full {
		a = append(a,
			ops.Op{K: "chown", P: "/f"}, ops.Op{K: "chtimes", P: "/a"}, ops.Op{K: "symlink", P: "/f", Q: "/l"},
			ops.Op{K: "hopen", P: "/f", N: os.O_RDWR | os.O_CREATE | os.O_TRUNC, H: 1},
			ops.Op{K: "hread", H: 1, N: 3},
			ops.Op{K: "hseek", H: 0, N: 2},
		)
	}
	return a
}

// MarkerAlphabet: alphabet A over names, contents and link targets that embed the C09 marker.
func MarkerAlphabet() []ops.Op {
	d := "/" + Marker + "-dir"
	f := "/" + Marker + "-file"
	df := d + "/" + Marker + "-inner"
	a := []ops.Op{
		{K: "mkdir", P: d},
		{K: "put", P: f, C: "content " + Marker + " content"},
		{K: "put", P: df, C: Marker},
		{K: "put", P: f, C: ""},
		{K: "remove", P: f},
		{K: "removeall", P: d},
		{K: "rename", P: f, Q: df},
		{K: "rename", P: d, Q: "/" + Marker + "-moved"},
		{K: "chmod", P: f, N: 0o600},
		{K: "chown", P: f},
		{K: "chtimes", P: f},
		{K: "chown", P: d},
		{K: "symlink", P: f, Q: "/" + Marker + "-link"},
	}
	return a
}

// ROAlphabet: every mutating and non-mutating method, against a populated tree (/a dir, /a/f, /f files).
func ROAlphabet() []ops.Op {
	a := []ops.Op{
		{K: "mkdir", P: "/new"}, {K: "mkdir", P: "/a"}, {K: "mkdirall", P: "/x/y"},
		{K: "remove", P: "/f"}, {K: "remove", P: "/nope"}, {K: "removeall", P: "/a"}, {K: "removeall", P: "/nope"},
		{K: "rename", P: "/f", Q: "/g"}, {K: "rename", P: "/nope", Q: "/g"},
		{K: "chmod", P: "/f", N: 0o600}, {K: "chown", P: "/f"}, {K: "chtimes", P: "/f"},
		{K: "symlink", P: "/f", Q: "/l"}, {K: "create", P: "/new"}, {K: "create", P: "/f"},
		{K: "put", P: "/f", C: "changed"}, {K: "put", P: "/new", C: "x"},
		{K: "stat", P: "/f"}, {K: "stat", P: "/a"}, {K: "stat", P: "/nope"}, {K: "list", P: "/"}, {K: "list", P: "/a"},
		{K: "read", P: "/f"}, {K: "read", P: "/a/f"}, {K: "lstat", P: "/f"}, {K: "readlink", P: "/f"},
	}
	for _, p := range []string{"/f", "/new"} {
		for _, acc := range []int{os.O_RDONLY, os.O_WRONLY, os.O_RDWR} {
			for mask := 0; mask < 16; mask++ {
				fl := acc
				if mask&1 != 0 {
					fl |= os.O_CREATE
				}
				if mask&2 != 0 {
					fl |= os.O_EXCL
				}
				if mask&4 != 0 {
					fl |= os.O_TRUNC
				}
				if mask&8 != 0 {
					fl |= os.O_APPEND
				}
				a = append(a, ops.Op{K: "openw", P: p, N: fl}, ops.Op{K: "openw", P: p, N: fl, C: "AB"})
			}
		}
	}
	for _, fl := range []int{os.O_RDONLY, os.O_RDWR, os.O_WRONLY, os.O_RDWR | os.O_APPEND | os.O_TRUNC} {
		a = append(a, ops.Op{K: "hopen", P: "/f", N: fl, H: 0})
	}
	a = append(a,
		ops.Op{K: "hwrite", H: 0, C: "Q"}, ops.Op{K: "hwritestring", H: 0, C: "Q"}, ops.Op{K: "hwriteat", H: 0, C: "Q", N: 1},
		ops.Op{K: "htrunc", H: 0, N: 0}, ops.Op{K: "htrunc", H: 0, N: 9}, ops.Op{K: "hsync", H: 0}, ops.Op{K: "hread", H: 0, N: 2}, ops.Op{K: "hclose", H: 0},
	)
	return a
}

// ROSetups: the populated tapes the read-only instance is opened over.
func ROSetups() [][]ops.Op {
	return [][]ops.Op{
		{{K: "mkdir", P: "/a"}, {K: "put", P: "/a/f", C: "inner"}, {K: "put", P: "/f", C: "T600:2"}},
		{{K: "mkdir", P: "/a"}, {K: "put", P: "/f", C: ""}, {K: "put", P: "/a/f", C: "x"}, {K: "rename", P: "/a/f", Q: "/a/g"}, {K: "put", P: "/a/f", C: "again"}, {K: "chmod", P: "/f", N: 0o400}},
		{},
	}
}

// NameAlphabet: a name universe with SQL wildcards, dots, spaces, non-ASCII and a >100-byte component.
func NameAlphabet() []ops.Op {
	long := "/" + "L0ng" + string(make([]byte, 0)) + repeat("n", 116)
	comps := []string{"/a_", "/ab", "/AB", "/a%", "/a b", "/ä", "/a.b", "/..a", long}
	a := []ops.Op{}
	for _, c := range comps {
		a = append(a, ops.Op{K: "mkdir", P: c})
	}
	for _, c := range comps[:6] {
		a = append(a, ops.Op{K: "put", P: c + "/x", C: "in " + c})
	}
	a = append(a, ops.Op{K: "put", P: "/a_", C: "file"}, ops.Op{K: "put", P: long, C: "long"}, ops.Op{K: "put", P: "/a.b/x.gz", C: "not compressed"})
	for _, c := range comps {
		a = append(a, ops.Op{K: "remove", P: c})
	}
	a = append(a, ops.Op{K: "removeall", P: "/a_"}, ops.Op{K: "removeall", P: "/a%"},
		ops.Op{K: "removeall", P: "/ab"}, ops.Op{K: "rename", P: "/AB", Q: "/moved"},
		ops.Op{K: "rename", P: "/a_", Q: "/ab"}, ops.Op{K: "rename", P: "/ab", Q: "/a%"}, ops.Op{K: "rename", P: "/a b", Q: long}, ops.Op{K: "rename", P: "/a_/x", Q: "/ä/x"}, ops.Op{K: "rename", P: "/ä", Q: "/..a"},
		ops.Op{K: "chmod", P: "/a%", N: 0o700})
	return a
}

func repeat(s string, n int) string {
	out := ""
	for i := 0; i < n; i++ {
		out += s
	}
	return out
}

// HandleMixAlphabet: open handles kept across other calls (DESIGN §6 C01 alphabet H).
func HandleMixAlphabet() []ops.Op {
	rw := os.O_RDWR
	return []ops.Op{
		{K: "mkdir", P: "/a"},
		{K: "put", P: "/f", C: "0123456789"},
		{K: "hopen", P: "/f", N: os.O_RDONLY, H: 0},
		{K: "hopen", P: "/f", N: rw, H: 1},
		{K: "hopen", P: "/a/f", N: rw | os.O_CREATE | os.O_TRUNC, H: 1},
		{K: "hwrite", H: 1, C: "x"},
		{K: "hreadall", H: 0},
		{K: "hreadall", H: 1},
		{K: "hsync", H: 1},
		{K: "hclose", H: 0},
		{K: "hclose", H: 1},
		{K: "remove", P: "/f"},
		{K: "remove", P: "/a/f"},
		{K: "rename", P: "/f", Q: "/a/f"},
		{K: "rename", P: "/a/f", Q: "/f"},
	}
}

// DeepAlphabet: deep nesting, creation under regular files, a directory with many children.
func DeepAlphabet() []ops.Op {
	a := []ops.Op{
		{K: "mkdirall", P: "/p"}, {K: "mkdirall", P: "/p/q"}, {K: "mkdirall", P: "/p/q/r"}, {K: "mkdirall", P: "/p/q/r/s"},
		{K: "put", P: "/p/f", C: "x"}, {K: "mkdir", P: "/p/f/sub"}, {K: "put", P: "/p/f/sub", C: "y"}, {K: "mkdirall", P: "/p/f/a/b"},
		{K: "put", P: "/p/q/r/s/leaf", C: "deep"}, {K: "removeall", P: "/p/q"}, {K: "rename", P: "/p/q", Q: "/z"}, {K: "many", P: "/m"},
		{K: "remove", P: "/m/c05"}, {K: "rename", P: "/m", Q: "/p/m"},
		{K: "rename", P: "/p", Q: "/p/q/moved"}, {K: "rename", P: "/p/q", Q: "/p/q/r/s/t"}, {K: "rename", P: "/p", Q: "/p/moved"},
		{K: "mkdirall", P: "/p/x/p"}, {K: "mkdir", P: "/p/x/p/y"}, {K: "put", P: "/p/x/p/q", C: "same names at two depths"},
		// a child that is named like its parent, and one named like the root's listing name
		{K: "mkdir", P: "/p/p"}, {K: "put", P: "/p/p/p", C: "named like its parent"}, {K: "rename", P: "/p/f", Q: "/p/p/f"},
	}
	return a
}

// KindReuseAlphabet: one name that is reused by entries of different kinds (file moved onto it, removed, re-created as a
// directory, a directory moved onto it ...), the situation in which replay and rebuild act on "whatever row holds the name".
func KindReuseAlphabet() []ops.Op {
	return []ops.Op{
		{K: "put", P: "/n", C: "n"}, {K: "mkdir", P: "/n"}, {K: "remove", P: "/n"},
		{K: "put", P: "/f", C: "file f"}, {K: "mkdir", P: "/d"}, {K: "put", P: "/d/x", C: ""},
		{K: "rename", P: "/f", Q: "/n"}, {K: "rename", P: "/d", Q: "/n"}, {K: "rename", P: "/n", Q: "/m"}, {K: "removeall", P: "/n"},
	}
}

// MarkerSetup: a directory with four descendants (two levels) and a top-level file, all carrying the marker.
func MarkerSetup() []ops.Op {
	d := "/" + Marker + "-dir"
	return []ops.Op{
		{K: "mkdir", P: d},
		{K: "put", P: d + "/" + Marker + "-c1", C: Marker + " one"},
		{K: "put", P: d + "/" + Marker + "-c2", C: ""},
		{K: "mkdir", P: d + "/" + Marker + "-sub"},
		{K: "put", P: d + "/" + Marker + "-sub/" + Marker + "-c3", C: "T600:1"},
		{K: "put", P: "/" + Marker + "-file", C: "content " + Marker},
	}
}

// BigMoveSetup/BigMoveAlphabet: a directory whose first child is a file of more than two blocks, followed by further
// children (so that recursive move / delete archives hold a record with a large UncompressedSize in the middle), and the
// calls that come after such an archive.
func BigMoveSetup() []ops.Op {
	return []ops.Op{{K: "mkdir", P: "/d"}, {K: "put", P: "/d/a", C: "T3000"}, {K: "put", P: "/d/b", C: "x"}, {K: "mkdir", P: "/d/c"}}
}
func BigMoveAlphabet() []ops.Op {
	return []ops.Op{
		{K: "rename", P: "/d", Q: "/e"}, {K: "removeall", P: "/d"}, {K: "removeall", P: "/e"}, {K: "mkdir", P: "/n"}, {K: "put", P: "/m", C: "y"},
		{K: "remove", P: "/d/b"}, {K: "rename", P: "/d/a", Q: "/d/z"}, {K: "chmod", P: "/d/a", N: 0o600}, {K: "chmod", P: "/d", N: 0o700}, {K: "put", P: "/e/b", C: "T1100:2"},
		{K: "rename", P: "/e", Q: "/d"}, {K: "rebuild"}, {K: "reopen"},
	}
}

// StaleHandleSetup/StaleHandleAlphabet: a write handle that is still open while its path is renamed away, removed,
// or taken by another entry (a directory), and is flushed or closed afterwards.
func StaleHandleSetup() []ops.Op {
	return []ops.Op{{K: "mkdir", P: "/a"}, {K: "hopen", P: "/a/f", N: os.O_RDWR | os.O_CREATE | os.O_TRUNC, H: 1}, {K: "hwrite", H: 1, C: "data"}}
}
func StaleHandleAlphabet() []ops.Op {
	return []ops.Op{
		{K: "rename", P: "/a/f", Q: "/g"}, {K: "remove", P: "/a/f"}, {K: "mkdirall", P: "/a/f/sub"}, {K: "mkdir", P: "/a/f"}, {K: "put", P: "/a/f", C: "other"},
		{K: "rename", P: "/a", Q: "/b"}, {K: "removeall", P: "/a"}, {K: "hwrite", H: 1, C: "more"}, {K: "hsync", H: 1}, {K: "hclose", H: 1},
	}
}

// SuffixAlphabet: regular files whose own names end in the suffix the configured pipeline adds to records with content
// (.gz for gzip; the same holds for .zst, .lz4, .age, .pgp ...), next to siblings without the suffix.
func SuffixAlphabet(sfx string) []ops.Op {
	return []ops.Op{
		{K: "put", P: "/x", C: "precious"}, {K: "put", P: "/y", C: "other"}, {K: "put", P: "/x" + sfx, C: "T600"}, {K: "put", P: "/w" + sfx, C: ""},
		{K: "put", P: "/backup.tar" + sfx, C: ""}, {K: "rename", P: "/y", Q: "/x" + sfx}, {K: "rename", P: "/x" + sfx, Q: "/z"}, {K: "remove", P: "/x" + sfx},
		{K: "chmod", P: "/x" + sfx, N: 0o600}, {K: "chmod", P: "/x", N: 0o600}, {K: "put", P: "/x", C: ""}, {K: "rebuild"},
	}
}

// LinkAlphabet: symlinks inside directories (for the listing clauses of C13; no reference model, level raw).
func LinkSetup() []ops.Op {
	return []ops.Op{{K: "mkdir", P: "/d"}, {K: "put", P: "/d/a", C: "hello"}, {K: "put", P: "/d/b", C: "xy"}, {K: "mkdir", P: "/l"}}
}
func LinkAlphabet() []ops.Op {
	return []ops.Op{
		{K: "symlink", P: "/d/a", Q: "/d/la"}, {K: "symlink", P: "/d/b", Q: "/d/lb"}, {K: "symlink", P: "/d/a", Q: "/d/lc"},
		{K: "symlink", P: "/d/a", Q: "/l/x"}, {K: "symlink", P: "/d/b", Q: "/l/y"},
		{K: "put", P: "/d/c", C: "x"}, {K: "remove", P: "/d/a"}, {K: "remove", P: "/d/la"},
	}
}
