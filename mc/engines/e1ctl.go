package engines

import (
	"encoding/json"
	"fmt"
	"os"
	"sort"
	"time"

	"stfsmc/ops"
	"stfsmc/pool"
	"stfsmc/rig"
)

// E1Spec is one bounded exploration: all histories over Alphabet up to Depth (state-merged), starting after Setup.
type E1Spec struct {
	Name        string
	Cfg         rig.Config
	Setup       []ops.Op
	Alphabet    []ops.Op
	Depth       int
	Oracles     []string
	AllJ        bool
	NoMerge     bool
	Level       string
	HInit       string
	HFlags      int
	AbsentIndex bool
	NoWalk      bool
	Foreign     *ForeignSpec
	TornBytes   int
}

type E1Stats struct {
	States       int
	Transitions  int
	Pruned       int
	MaxDepth     int // last complete layer
	Exhaustive   bool
	Outcomes     map[string]int
	Harness      []string
	Inconclusive int
	Reps         [][]ops.Op // one representative history per expanded state (including the initial state)
}

// ExploreE1 runs the breadth-first search. deadline.IsZero() = no budget.
func ExploreE1(p *pool.Pool, spec E1Spec, rep *Report, deadline time.Time) E1Stats {
	st := E1Stats{Outcomes: map[string]int{}, Exhaustive: true}
	seen := map[string]bool{}
	// initial state
	frontier := [][]ops.Op{}
	{
		job := &E1Job{Cfg: spec.Cfg, Setup: spec.Setup, Hist: nil, Oracles: spec.Oracles, AllJ: spec.AllJ, Level: spec.Level, HInit: spec.HInit, HFlags: spec.HFlags, AbsentIndex: spec.AbsentIndex, Foreign: spec.Foreign, TornBytes: spec.TornBytes, NoWalk: spec.NoWalk}
		p.Map("e1", []interface{}{job}, func(i int, resp *pool.Response) {
			st.Transitions++
			if resp.Err != "" {
				st.Harness = append(st.Harness, "initial state: "+resp.Err)
				return
			}
			var r E1Res
			if err := json.Unmarshal(resp.Result, &r); err != nil {
				st.Harness = append(st.Harness, err.Error())
				return
			}
			if r.Harness != "" {
				st.Harness = append(st.Harness, "initial state: "+r.Harness)
				return
			}
			rep.Add("e1", job, r.Viol)
			seen[r.Key] = true
			if !r.Diverged {
				frontier = append(frontier, []ops.Op{})
			} else {
				st.Pruned++
			}
		})
	}
	st.Reps = append(st.Reps, frontier...)
	for depth := 1; depth <= spec.Depth && len(frontier) > 0; depth++ {
		if !deadline.IsZero() && time.Now().After(deadline) {
			st.Exhaustive = false
			break
		}
		jobs := []interface{}{}
		for _, h := range frontier {
			for _, op := range spec.Alphabet {
				hist := append(append([]ops.Op{}, h...), op)
				jobs = append(jobs, &E1Job{Cfg: spec.Cfg, Setup: spec.Setup, Hist: hist, Oracles: spec.Oracles, AllJ: spec.AllJ, Level: spec.Level, HInit: spec.HInit, HFlags: spec.HFlags, AbsentIndex: spec.AbsentIndex, Foreign: spec.Foreign, TornBytes: spec.TornBytes, NoWalk: spec.NoWalk})
			}
		}
		next := [][]ops.Op{}
		type cand struct {
			key  string
			hist []ops.Op
			idx  int
		}
		cands := []cand{}
		skipped := 0
		p.Stop = func() bool { return !deadline.IsZero() && time.Now().After(deadline) }
		p.Map("e1", jobs, func(i int, resp *pool.Response) {
			job := jobs[i].(*E1Job)
			if resp.Err == "skipped" {
				skipped++
				return
			}
			st.Transitions++
			if resp.Err != "" {
				st.Inconclusive++
				rep.Inconclusive++
				fmt.Fprintf(os.Stderr, "[%s] inconclusive: %s: %s\n", spec.Name, ops.HistString(job.Hist), resp.Err)
				return
			}
			var r E1Res
			if err := json.Unmarshal(resp.Result, &r); err != nil {
				st.Harness = append(st.Harness, err.Error())
				return
			}
			if r.Harness != "" {
				st.Harness = append(st.Harness, ops.HistString(job.Hist)+": "+r.Harness)
				return
			}
			if spec.Level != "handle" && spec.Level != "ro" {
				st.Outcomes[job.Hist[len(job.Hist)-1].K+":"+errClass2(r.Outcome)]++
			}
			rep.Add("e1", job, r.Viol)
			if r.Diverged {
				st.Pruned++
				return
			}
			cands = append(cands, cand{r.Key, job.Hist, i})
		})
		p.Stop = nil
		// deterministic choice of representatives: lowest job index per key
		best := map[string]cand{}
		for _, c := range cands {
			if b, ok := best[c.key]; !ok || c.idx < b.idx {
				best[c.key] = c
			}
		}
		order := []cand{}
		for _, c := range best {
			order = append(order, c)
		}
		sort.Slice(order, func(i, j int) bool { return order[i].idx < order[j].idx })
		for _, c := range order {
			if spec.NoMerge || !seen[c.key] {
				seen[c.key] = true
				next = append(next, c.hist)
			}
		}
		if spec.NoMerge {
			next = next[:0]
			for _, c := range cands {
				next = append(next, c.hist)
			}
		}
		if skipped > 0 {
			st.Exhaustive = false
			rep.Notes = append(rep.Notes, fmt.Sprintf("%s: budget reached inside depth %d (%d of %d transitions not executed); last complete depth %d", spec.Name, depth, skipped, len(jobs), depth-1))
			break
		}
		st.MaxDepth = depth
		frontier = next
		st.Reps = append(st.Reps, next...)
		if len(jobs) > 0 {
			rep.AddSample(map[string]interface{}{"exploration": spec.Name, "config": spec.Cfg.String(), "history": ops.HistString(jobs[len(jobs)/2].(*E1Job).Hist)})
		}
	}
	st.States = len(seen)
	return st
}

func errClass2(outcome string) string {
	if len(outcome) >= 3 && outcome[:3] == "err" {
		return "err"
	}
	return "ok"
}
